"""C09 - each new stream gets exactly one attachment decision, honouring the attacher.

Monitor: a real TorState bootstrapped over the real TorControlProtocol against FakeTor;
ATTACHSTREAM / SETCONF lines are observed at FakeTor (which acknowledges every command, so
nothing is masked by an outstanding reply).  Two workloads:

A. custom attacher doubles returning every kind of answer (BUILT circuit, circuit in another
   state, unknown circuit, non-circuit, None, DO_NOT_ATTACH, raising) immediately / through a
   Deferred fired later / from a coroutine, for NEW / NEWRESOLVE / .exit streams, with later
   events of the same stream and attacher install/replace/remove operations;
B. 1-5 concurrent ``Circuit.stream_via(...).connect()`` calls (real TorCircuitEndpoint ->
   TorClientEndpoint -> TorSocksEndpoint over fake SOCKS transports with distinct source
   ports) interleaved with unrelated streams and circuits building / closing meanwhile.
"""
import itertools

from twisted.internet import defer, task
from twisted.internet.interfaces import IReactorCore, IReactorTime, IStreamClientEndpoint
from twisted.internet.protocol import Factory, Protocol
from zope.interface import implementer

from .. import audit, gen, wire
from ..faketor.core import FakeTor, ConfigStore, Link, OK

PROPERTY = "C09"
READY = True
LEVEL = "exploration"
TECHNIQUE = ("runtime monitoring: ATTACHSTREAM/SETCONF lines observed at a reference control server while a real TorState "
             "handles generated stream/circuit event histories; attacher doubles (all answer kinds, sync/Deferred/coroutine) "
             "and concurrent via-circuit connections over fake SOCKS transports; reference decision table as oracle")
LEVEL_TEXT = ("Held on the executions observed: every attacher answer kind x delivery mode x stream kind (complete product, "
              "each in several histories) plus generated histories with several streams whose deferred answers resolve in "
              "permuted order, and all interleavings (bounded) of 1-4 concurrent via-circuit connections' stream announcements "
              "with unrelated streams and circuit build/close events. One decision per stream is counted at the server.")
LEVEL_NOTE = ("Trusted: vf.faketor.core.FakeTor (acknowledges every command), the SOCKS server script played by the harness "
              "(method reply, later the success reply), causality: Tor announces a stream only after the SOCKS request was "
              "written. A via-circuit connection whose circuit closes before the stream appears is counted, not judged.")
RULE = ("a case = initial circuits + a step list (stream events, attacher answers firing, circuit events, SOCKS server steps, "
        "attacher operations); distinct = hash of the step list; non-trivial = at least one new stream reached the attacher "
        "and the lines at the server were compared with the reference decision")
ASSUMPTIONS = [
    "the decision expected for a deferred/coroutine answer is evaluated against the circuit states at the moment the answer is delivered",
    "'reported' for an invalid answer = TorState._attacher_error was invoked (or an error was logged); nothing may be sent for that stream",
    "a via-circuit connection whose circuit fails/closes before its stream is announced is outside the statement (counted only)",
    "whether the attacher is consulted at all for a .exit target is not judged; only that nothing is sent",
    "bounded progress: a via-circuit connect() whose circuit stays BUILT must not fail before even trying its SOCKS endpoint",
    "a stream that was new while the attacher was installed is owed its decision even if the attacher is removed before its Deferred/coroutine answer arrives (Tor left that stream to the controller)",
    "Tor may refuse an ATTACHSTREAM (552 Unknown circuit: the circuit closed a moment ago); the stream still gets exactly the one decision the attacher made, nothing is sent in its place",
    "a stream first heard of when it is already CLOSED/FAILED is not attachable: no decision may be sent for it; a decided stream that later ends (FAILED then CLOSED, DETACHED/FAILED/CLOSED, or CLOSED) gets no further decision",
    "the local port of a via-circuit connection whose SOCKS link died before Tor announced a stream may be handed to a later via-circuit connection through another circuit; that one must be attached to its own circuit",
]
TRUSTED_BASE = ["vf.faketor.core", "harness SOCKS server script"]
ANCHORS = ["txtorcon.torstate:TorState._maybe_attach", "txtorcon.torstate:TorState._stream_update",
           "txtorcon.torstate:TorState.set_attacher", "txtorcon.torstate:TorState.undo_attacher",
           "txtorcon.circuit:_CircuitAttacher.attach_stream", "txtorcon.circuit:_CircuitAttacher._add_real_target",
           "txtorcon.circuit:TorCircuitEndpoint.connect", "txtorcon.attacher:PriorityAttacher.attach_stream"]
FLOORS = {"quick": {"evaluations": 800, "streams_judged": 2500, "via_connections_judged": 600,
                    "via_connections_on_a_reused_local_port": 30, "events_for_unattached_stream_while_attacher_undecided": 100, "attacher_removed_while_answers_pending": 40, "tor_internal_streams_announced": 150, "reinstalls_before_removal_was_acknowledged": 40, "attachstream_commands_refused_by_tor": 15,
                    "second_attacher_compares_equal": 50, "sub_attacher_removed_itself_while_consulted": 60, "streams_first_seen_already_closed": 80,
                    "streams_first_seen_already_failed": 80, "decided_streams_ended_by_failed": 300,
                    "reach:txtorcon.torstate:TorState._maybe_attach": 2000,
                    "reach:txtorcon.circuit:_CircuitAttacher.attach_stream": 500},
          "thorough": {"evaluations": 15000, "streams_judged": 50000, "via_connections_judged": 12000}}

FPS = ["%040X" % (0x1111111111111111111111111111111111111111 * i) for i in range(1, 7)]
NICKS = ["alpha", "bravo", "charlie", "delta", "echo", "fox"]


def ns_lines():
    import base64
    out = []
    for i, (fp, nick) in enumerate(zip(FPS, NICKS)):
        ident = base64.b64encode(bytes.fromhex(fp)).decode().rstrip("=")
        out.append("r %s %s %s 2024-01-01 00:00:00 10.0.0.%d 9001 0" % (nick, ident, "A" * 27, i + 1))
        out.append("s Fast Guard Running Stable Valid")
        out.append("w Bandwidth=%d" % (100 + i))
    return out


@implementer(IReactorCore, IReactorTime)
class MiniReactor(task.Clock):
    def __init__(self):
        task.Clock.__init__(self)
        self.triggers = []
        self.running = True

    def addSystemEventTrigger(self, phase, event, fn, *a, **kw):
        t = (phase, event, fn, a, kw)
        self.triggers.append(t)
        return t

    def removeSystemEventTrigger(self, t):
        self.triggers.remove(t)

    def callWhenRunning(self, fn, *a, **kw):
        fn(*a, **kw)

    def fireSystemEvent(self, event):
        pass

    def resolve(self, *a, **kw):
        raise NotImplementedError

    def run(self):
        pass

    def stop(self):
        pass

    def crash(self):
        pass

    def iterate(self, delay=0):
        pass


class World(object):
    """FakeTor + real protocol + real TorState, with ground truth for circuits"""

    def __init__(self, circuits, chunking=(1 << 30,)):
        import txtorcon
        from txtorcon import circuit as circmod
        circmod._get_circuit_attacher.attacher = None
        self.txtorcon = txtorcon
        self.conf = ConfigStore(options={"__LeaveStreamsUnattached": "Boolean", "SocksPort": "LineList"},
                                values={"SocksPort": ["9050"]})
        self.tor = FakeTor(conf=self.conf)
        self.circ_state = {}            # id -> status (ground truth)
        self.circ_path = {}
        lines = []
        for (cid, status, nhops) in circuits:
            self.circ_state[cid] = status
            self.circ_path[cid] = nhops
            lines.append(self.circ_line(cid, status, nhops))
        self.tor.info["ns/all"] = ns_lines()
        self.tor.info["circuit-status"] = lines if lines else ""
        self.tor.info["stream-status"] = ""
        self.tor.info["address-mappings/all"] = ""
        self.tor.info["entry-guards"] = ""
        self.tor.handlers["ATTACHSTREAM"] = self._attachstream
        self.attach_lines = []          # (sid, cid, index into tor.lines)
        self.bad_attach = []
        self.proto = txtorcon.TorControlProtocol()
        self.link = Link(self.proto, self.tor, chunking).connect()
        self.link.pump()
        self.reactor = MiniReactor()
        self.clock = self.link.clock
        self.aud = audit.Auditor(self.clock)
        self.log = audit.LogCapture()
        self.log.start()
        self.state = txtorcon.TorState(self.proto)
        self.link.pump()
        self.boot_ok = self.state.post_bootstrap.called
        self.reported = []
        orig = self.state._attacher_error

        def attacher_error(fail):
            self.reported.append(str(fail.value))
            return None
        self.state._attacher_error = attacher_error
        self.exceptions = []

    def circ_line(self, cid, status, nhops):
        path = ",".join("$%s~%s" % (FPS[i], NICKS[i]) for i in range(nhops))
        s = "%d %s" % (cid, status)
        if path:
            s += " " + path
        return s + " BUILD_FLAGS=NEED_CAPACITY PURPOSE=GENERAL TIME_CREATED=2024-01-01T00:00:00.000000"

    def _attachstream(self, rest):
        parts = rest.split()
        try:
            sid, cid = int(parts[0]), int(parts[1])
        except Exception:
            self.bad_attach.append(rest)
            return (512, [("end", "Invalid arguments")])
        self.attach_lines.append((sid, cid, len(self.tor.lines)))
        if sid in getattr(self, "refuse_attach", ()):
            # e.g. the circuit closed a moment ago and its CIRC CLOSED event is still on its way
            self.attach_refused = getattr(self, "attach_refused", 0) + 1
            return (552, [("end", "Unknown circuit \"%d\"" % cid)])
        return OK

    def circ_event(self, cid, status, nhops=None, extra=""):
        if nhops is None:
            nhops = self.circ_path.get(cid, 0)
        self.circ_path[cid] = nhops
        if status in ("CLOSED", "FAILED"):
            self.circ_state.pop(cid, None)
            extra = extra or " REASON=FINISHED"
        else:
            self.circ_state[cid] = status
        self.tor.emit("CIRC", self.circ_line(cid, status, nhops) + extra)
        self.pump()

    def stream_event(self, sid, status, cid, target, extra=""):
        self.tor.emit("STREAM", "%d %s %d %s%s" % (sid, status, cid, target, extra))
        self.pump()

    def pump(self):
        self.link.pump()
        for e in self.link.exceptions:
            self.exceptions.append(e)
        self.link.exceptions = []

    def close(self):
        self.log.stop()
        from txtorcon import circuit as circmod
        circmod._get_circuit_attacher.attacher = None


# ---------------------------------------------------------------------------
# workload A: attacher answers

ANSWERS = ["built", "launched", "extended", "closed", "foreign", "string", "int", "none", "dna", "raise",
           "false", "zero", "empty-string", "empty-list", "fresh"]
MODES = ["sync", "deferred", "coroutine", "coroutine-await"]
KINDS = ["NEW", "NEWRESOLVE", "exit", "internal"]      # internal: a stream Tor opened itself (directory fetch)


def make_attacher(world, plan, log):
    from txtorcon.interface import IStreamAttacher
    TorState = world.txtorcon.TorState

    @implementer(IStreamAttacher)
    class Attacher(object):
        def __init__(self):
            self.pending = {}           # sid -> Deferred to fire with the answer

        def resolve(self, sid):
            p = plan[sid]
            a = p["answer"]
            st = world.state
            if a == "built":
                return st.circuits.get(p["circ"]) or world.kept.get(p["circ"])
            if a in ("launched", "extended"):
                return st.circuits.get(p["circ"]) or world.kept.get(p["circ"])
            if a == "closed":
                return world.kept[p["circ"]]
            if a == "foreign":
                from txtorcon.circuit import Circuit
                c = Circuit(st)
                c.id = 999
                c.state = "BUILT"
                return c
            if a == "false":
                return False
            if a == "zero":
                return 0
            if a == "empty-string":
                return ""
            if a == "empty-list":
                return []
            if a == "fresh":
                # a circuit that the application had built for this stream after it appeared
                return st.circuits.get(8)
            if a == "string":
                return "circuit-1"
            if a == "int":
                return p.get("circ", 1)
            if a == "none":
                return None
            if a == "dna":
                return TorState.DO_NOT_ATTACH
            raise AssertionError(a)

        def attach_stream(self, stream, circuits):
            sid = stream.id
            log.append(("consulted", sid))
            p = plan.get(sid)
            if p is None:
                return None
            if p["answer"] == "raise" and p["mode"] == "sync":
                raise RuntimeError("attacher raises")
            if p["mode"] == "sync":
                return self.resolve(sid)
            if p["mode"] == "deferred":
                d = defer.Deferred()
                self.pending.setdefault(sid, []).append(d)
                return d
            if p["mode"] == "coroutine":
                async def co():
                    if p["answer"] == "raise":
                        raise RuntimeError("attacher raises")
                    return self.resolve(sid)
                return co()
            d = defer.Deferred()
            self.pending.setdefault(sid, []).append(d)

            async def co2():
                return await d
            return co2()

        def attach_stream_failure(self, stream, fail):
            log.append(("failure", stream.id))

        def fire(self, sid):
            # every time it was asked about the stream it owes an answer
            for d in self.pending.pop(sid, []):
                if plan[sid]["answer"] == "raise":
                    d.errback(RuntimeError("attacher raises"))
                else:
                    d.callback(self.resolve(sid))
    return Attacher()


def expected_decision(world, p):
    """reference decision table, evaluated when the answer is delivered"""
    a = p["answer"]
    if p["kind"] == "exit":
        return ("nothing", None)
    if a == "none":
        return ("attach", 0)
    if a == "dna":
        return ("nothing", None)
    if a == "fresh":
        return ("attach", 8) if world.circ_state.get(8) == "BUILT" else ("invalid", None)
    if a in ("built", "launched", "extended"):
        st = world.circ_state.get(p["circ"])
        if st == "BUILT":
            return ("attach", p["circ"])
        return ("invalid", None)
    return ("invalid", None)


def run_answers(case, rec):
    circuits = [(1, "BUILT", 3), (2, "BUILT", 3), (3, "LAUNCHED", 0), (4, "EXTENDED", 1), (5, "BUILT", 2)]
    w = World(circuits, chunking=case.get("chunking") or (1 << 30,))
    if not w.boot_ok:
        rec.violation("state-bootstrap-failed", "bootstrap", {"exc": w.exceptions, "lines": w.tor.lines[-5:]}, case)
        rec.case(case, nontrivial=False)
        w.close()
        return
    w.kept = dict(w.state.circuits)
    w.refuse_attach = set(case.get("refuse_attach", ()))
    plan = {}
    for s in case["streams"]:
        plan[s["sid"]] = s
    alog = []
    att = make_attacher(w, plan, alog)
    setconf_before = len([l for l in w.tor.lines if l.startswith("SETCONF")])
    installed = att
    if case.get("priority"):
        # the same answers, reached through a PriorityAttacher composition: a sub-attacher
        # without opinion in front, one that would capture everything but was removed again
        from txtorcon.attacher import PriorityAttacher
        from txtorcon.interface import IStreamAttacher

        @implementer(IStreamAttacher)
        class Fixed(object):
            def __init__(self, answer):
                self.answer = answer
                self.consulted = 0

            def attach_stream(self, stream, circuits):
                self.consulted += 1
                return self.answer(circuits) if callable(self.answer) else self.answer

            def attach_stream_failure(self, stream, fail):
                pass
        installed = PriorityAttacher()
        removed = Fixed(lambda circuits: circuits.get(2))

        @implementer(IStreamAttacher)
        class SelfRemoving(object):
            """has no opinion and unregisters itself the first time it is consulted"""
            def __init__(self):
                self.consulted = 0

            def attach_stream(self, stream, circuits):
                self.consulted += 1
                if self.consulted == 1:
                    installed.remove_attacher(self)
                    rec.count("sub_attacher_removed_itself_while_consulted")
                return None

            def attach_stream_failure(self, stream, fail):
                pass

        def populate():
            installed.add_attacher(removed, priority=1)
            if case.get("self_removing"):
                # consulted before the main attacher whatever order the composition uses
                installed.add_attacher(SelfRemoving(), priority=0)
                installed.add_attacher(SelfRemoving(), priority=1)
            installed.add_attacher(att, priority=case["priority"])
            installed.add_attacher(Fixed(None), priority=0)
            installed.remove_attacher(removed)
        w.removed_sub = removed
        rec.count("priority_compositions")
        if case.get("priority_late"):
            rec.count("priority_attacher_installed_empty")
        else:
            populate()
    d = w.state.set_attacher(installed, w.reactor)
    if case.get("priority") and case.get("priority_late"):
        populate()
    if case.get("remove_before_ack"):
        # the application changes its mind before Tor has answered: install, remove, install again
        w.state.set_attacher(None, w.reactor)
        w.pump()
        rec.count("removals_before_install_was_acknowledged")
        lines = [l for l in w.tor.lines if l.startswith("SETCONF")][setconf_before:]
        if lines != ["SETCONF __LeaveStreamsUnattached=1", "SETCONF __LeaveStreamsUnattached=0"] \
                or w.conf.get("__LeaveStreamsUnattached") != ["0"]:
            rec.violation("removal-does-not-tell-tor", "attacher-ops/removed-before-install-acknowledged",
                          {"lines": lines, "store": w.conf.get("__LeaveStreamsUnattached")}, case)
        setconf_before = len([l for l in w.tor.lines if l.startswith("SETCONF")])
        w.state.set_attacher(installed, w.reactor)
    w.pump()
    lines = [l for l in w.tor.lines if l.startswith("SETCONF")][setconf_before:]
    rec.count("attacher_installs")
    if lines != ["SETCONF __LeaveStreamsUnattached=1"]:
        rec.violation("install-does-not-tell-tor", "install" + ("/priority-attacher-empty-at-install" if case.get("priority") and case.get("priority_late") else ""),
                      {"lines": lines}, case)
    if case.get("reinstall_before_removal_ack"):
        # the application removes its attacher and installs it again at once, before Tor has
        # answered the removal: Tor must end up told to leave streams unattached, and the attacher
        # is the installed one for every stream that follows
        setconf_before = len([l for l in w.tor.lines if l.startswith("SETCONF")])
        w.state.set_attacher(None, w.reactor)
        try:
            w.state.set_attacher(installed, w.reactor)
            refused = None
        except Exception as e:
            refused = repr(e)
        w.pump()
        rec.count("reinstalls_before_removal_was_acknowledged")
        lines = [l for l in w.tor.lines if l.startswith("SETCONF")][setconf_before:]
        if refused or lines != ["SETCONF __LeaveStreamsUnattached=0", "SETCONF __LeaveStreamsUnattached=1"] \
                or w.conf.get("__LeaveStreamsUnattached") != ["1"]:
            rec.violation("reinstall-does-not-tell-tor", "attacher-ops/reinstalled-before-removal-acknowledged",
                          {"lines": lines, "store": w.conf.get("__LeaveStreamsUnattached"), "refused": refused}, case)
    # circuit 6 was built and closed before the streams (answer kind "closed")
    w.circ_event(6, "LAUNCHED", 0)
    w.circ_event(6, "BUILT", 3)
    w.kept[6] = w.state.circuits.get(6)
    w.circ_event(6, "CLOSED", 3)
    decided_at = {}
    for step in case["steps"]:
        op = step[0]
        if op == "new":
            p = plan[step[1]]
            target = {"NEW": "example.com:80", "NEWRESOLVE": "example.org:0",
                      "exit": "www.example.com.%s.exit:80" % NICKS[0],
                      "internal": "10.0.0.3:9001"}[p["kind"]]
            status = "NEWRESOLVE" if p["kind"] == "NEWRESOLVE" else "NEW"
            if p["kind"] == "internal":
                # with __LeaveStreamsUnattached=1 Tor leaves its own directory fetches to the controller too
                rec.count("tor_internal_streams_announced")
                w.stream_event(p["sid"], status, 0, target, " SOURCE_ADDR=(Tor_internal):0 PURPOSE=DIR_FETCH")
            else:
                w.stream_event(p["sid"], status, 0, target,
                               " SOURCE_ADDR=127.0.0.1:%d PURPOSE=%s" % (40000 + p["sid"], "DNS_REQUEST" if status == "NEWRESOLVE" else "USER"))
            if p["mode"] in ("sync", "coroutine"):
                decided_at[p["sid"]] = expected_decision(w, p)
        elif op == "fire":
            p = plan[step[1]]
            if step[1] in att.pending:
                decided_at[p["sid"]] = expected_decision(w, p)
                att.fire(step[1])
                w.pump()
        elif op == "circ":
            w.circ_event(step[1], step[2], step[3] if len(step) > 3 else None)
        elif op == "later":
            sid, status = step[1], step[2]
            w.stream_event(sid, status, step[3], "example.com:80",
                           " REASON=END REMOTE_REASON=CONNECTREFUSED" if status == "FAILED" else
                           (" REASON=END" if status == "CLOSED" else ""))
            if status in ("FAILED", "CLOSED"):
                rec.count("decided_streams_ended_by_" + status.lower())
            elif step[3] == 0 and sid not in decided_at:
                rec.count("events_for_unattached_stream_while_attacher_undecided")
        elif op == "ghost":
            # a stream first heard of when it is already over (its NEW fell into the window before
            # SETEVENTS took effect): not attachable, so no decision may be sent for it
            sid, status = step[1], step[2]
            plan[sid] = {"sid": sid, "kind": "NEW", "answer": step[3], "mode": "sync", "circ": 1}
            w.stream_event(sid, status, 0, "ghost.example:80", " REASON=END")
            decided_at[sid] = ("nothing", None)
            rec.count("streams_first_seen_already_" + status.lower())
        elif op == "remove-mid":
            n0 = len(w.tor.lines)
            w.state.set_attacher(None, w.reactor)
            w.pump()
            rec.count("attacher_removed_while_answers_pending")
            sc = [l for l in w.tor.lines[n0:] if l.startswith("SETCONF")]
            if sc != ["SETCONF __LeaveStreamsUnattached=0"]:
                rec.violation("removal-does-not-tell-tor", "attacher-ops/removed-while-answers-pending", {"lines": sc}, case)
        elif op == "second-attacher":
            alog2 = []
            other = make_attacher(w, {}, alog2)
            if case.get("second_equal"):
                # a different object that compares equal to the installed one (dataclass / attrs /
                # namedtuple attachers built from the same fields do)
                other.__class__.__eq__ = lambda a, b: True
                other.__class__.__hash__ = lambda a: 1
                rec.count("second_attacher_compares_equal")
            n0 = len(w.tor.lines)
            try:
                w.state.set_attacher(other, w.reactor)
                refused = False
            except Exception:
                refused = True
            w.pump()
            rec.count("second_attacher_attempts")
            if not refused:
                rec.violation("second-attacher-accepted", "attacher-ops", {}, case)
            if [l for l in w.tor.lines[n0:] if l.startswith("SETCONF")]:
                rec.violation("second-attacher-changed-tor-config", "attacher-ops", {"lines": w.tor.lines[n0:]}, case)
        elif op == "same-attacher":
            n0 = len(w.tor.lines)
            w.state.set_attacher(installed, w.reactor)
            w.pump()
            if [l for l in w.tor.lines[n0:] if l.startswith("SETCONF")]:
                rec.violation("reinstalling-same-attacher-changed-tor-config", "attacher-ops", {"lines": w.tor.lines[n0:]}, case)
    w.pump()
    # ---- oracle: one decision per stream
    for sid, p in plan.items():
        if sid not in decided_at:
            continue
        rec.count("streams_judged")
        got = [(s, c) for (s, c, _) in w.attach_lines if s == sid]
        exp = decided_at[sid]
        icls = "exit-target" if p["kind"] == "exit" else "answer=%s" % p["answer"]
        if sid in w.refuse_attach and got:
            icls += "+tor-refused-the-attachstream"
        if sid >= 70:
            icls = "stream-first-seen-when-already-over"
        elif any(st[0] == "later" and st[1] == sid and st[2] in ("FAILED", "CLOSED") for st in case["steps"]):
            icls += "+stream-ended-later"
        if ("remove-mid",) in case["steps"] and p["mode"] in ("deferred", "coroutine-await") \
                and case["steps"].index(("remove-mid",)) < max(i for i, st in enumerate(case["steps"]) if st[0] == "fire" and st[1] == sid):
            icls += "+attacher-removed-before-answer"
        rec.seen("answer_kinds", "%s/%s/%s" % (p["kind"], p["answer"], p["mode"]))
        if exp[0] == "attach":
            if got != [(sid, exp[1])]:
                rec.violation("wrong-or-missing-decision", icls, {"sid": sid, "want": [sid, exp[1]], "got": got}, case)
        else:
            if got:
                rec.violation("decision-sent-although-none-expected", icls,
                              {"sid": sid, "expected": exp[0], "got": got}, case)
    if case.get("priority") and w.removed_sub.consulted:
        rec.violation("removed-sub-attacher-consulted", "priority-attacher", {"times": w.removed_sub.consulted}, case)
    ninvalid = sum(1 for sid, e in decided_at.items() if e[0] == "invalid")
    logged = w.log.take()
    if ninvalid and not (w.reported or logged):
        rec.violation("invalid-answer-not-reported", "invalid-answer", {"invalid": ninvalid}, case)
    rec.count("invalid_answers_reported", len(w.reported))
    rec.count("attachstream_commands_refused_by_tor", getattr(w, "attach_refused", 0))
    # streams nobody planned for must not appear at the server
    for (s, c, _) in w.attach_lines:
        if s not in plan:
            rec.violation("decision-for-unknown-stream", "general", {"sid": s}, case)
    if w.bad_attach:
        rec.violation("malformed-attachstream", "general", {"lines": w.bad_attach}, case)
    for e in w.exceptions:
        rec.violation("exception-escaped", "general", {"exc": e}, case)
        break
    # removal tells Tor to resume attaching
    if case.get("remove"):
        n0 = len(w.tor.lines)
        w.state.set_attacher(None, w.reactor)
        w.pump()
        rec.count("attacher_removals")
        sc = [l for l in w.tor.lines[n0:] if l.startswith("SETCONF")]
        if sc != ["SETCONF __LeaveStreamsUnattached=0"]:
            rec.violation("removal-does-not-tell-tor", "attacher-ops", {"lines": sc}, case)
        elif w.conf.get("__LeaveStreamsUnattached") != ["0"]:
            rec.violation("removal-does-not-tell-tor", "attacher-ops", {"store": w.conf.get("__LeaveStreamsUnattached")}, case)
        # and a new stream afterwards gets no decision from us
        w.stream_event(90, "NEW", 0, "after.example:80", " SOURCE_ADDR=127.0.0.1:45000 PURPOSE=USER")
        if [x for x in w.attach_lines if x[0] == 90]:
            rec.violation("decision-after-attacher-removed", "attacher-ops", {}, case)
    rec.case(case, nontrivial=bool(decided_at))
    w.close()


def gen_answers_case(rnd, combo=None):
    streams = []
    n = rnd.choice([1, 2, 3, 4])
    for i in range(n):
        if combo is not None and i == 0:
            kind, answer, mode = combo
        else:
            kind, answer, mode = rnd.choice(KINDS), rnd.choice(ANSWERS), rnd.choice(MODES)
        circ = {"built": rnd.choice([1, 2, 5]), "launched": 3, "extended": 4, "closed": 6}.get(answer, 1)
        streams.append({"sid": 10 + i, "kind": kind, "answer": answer, "mode": mode, "circ": circ})
    steps = []
    pend = []
    order = list(streams)
    rnd.shuffle(order)
    fresh_done = False
    for s in order:
        if s["answer"] == "fresh" and s["mode"] in ("sync", "coroutine") and not fresh_done:
            steps += [("circ", 8, "LAUNCHED", 0), ("circ", 8, "EXTENDED", 2), ("circ", 8, "BUILT", 3)]
            fresh_done = True
        steps.append(("new", s["sid"]))
        if s["mode"] in ("deferred", "coroutine-await"):
            pend.append(s["sid"])
            if rnd.random() < 0.3:
                # Tor reports progress of the still unattached stream while the attacher thinks
                # (cached DNS answer / MapAddress: REMAP with circuit 0; CONTROLLER_WAIT)
                steps.append(("later", s["sid"], rnd.choice(["REMAP", "CONTROLLER_WAIT"]), 0))
            if s["answer"] == "fresh" and not fresh_done:
                steps += [("circ", 8, "LAUNCHED", 0), ("circ", 8, "EXTENDED", 2), ("circ", 8, "BUILT", 3)]
                fresh_done = True
        r = rnd.random()
        if r < 0.15:
            steps.append(("second-attacher",))
        elif r < 0.25:
            steps.append(("same-attacher",))
        elif r < 0.4:
            c = rnd.choice([1, 2, 5])
            steps.append(("circ", c, rnd.choice(["CLOSED", "FAILED"])))
        elif r < 0.5:
            steps.append(("circ", 3, "EXTENDED", 1))
            steps.append(("circ", 3, "BUILT", 3))
        if pend and rnd.random() < 0.5:
            sid = pend.pop(rnd.randrange(len(pend)))
            steps.append(("fire", sid))
    rnd.shuffle(pend)
    removed_mid = False
    if pend and rnd.random() < 0.25:
        # the application removes its attacher while it still owes answers for parked streams:
        # those streams arrived while it was installed and Tor left them to the controller
        steps.append(("remove-mid",))
        removed_mid = True
    for sid in pend:
        steps.append(("fire", sid))
    for s in streams:
        if rnd.random() < 0.5:
            steps.append(("later", s["sid"], rnd.choice(["SENTCONNECT", "REMAP", "SUCCEEDED"]), rnd.choice([1, 2, 5])))
    for s in streams:
        # the end of a stream's life: Tor reports FAILED and then CLOSED for a failing stream, else CLOSED
        r = rnd.random()
        c = rnd.choice([1, 2, 5])
        if r < 0.25:
            steps += [("later", s["sid"], "FAILED", c), ("later", s["sid"], "CLOSED", c)]
        elif r < 0.4:
            steps.append(("later", s["sid"], "CLOSED", c))
        elif r < 0.5:
            steps += [("later", s["sid"], "DETACHED", c), ("later", s["sid"], "FAILED", 0), ("later", s["sid"], "CLOSED", 0)]
    if rnd.random() < 0.3:
        for g in range(rnd.choice([1, 1, 2])):
            steps.insert(rnd.randrange(len(steps) + 1),
                         ("ghost", 70 + g, rnd.choice(["CLOSED", "FAILED"]), rnd.choice(["none", "built", "dna"])))
    refuse = [s["sid"] for s in streams if rnd.random() < 0.12]
    return {"kind": "answers", "streams": streams, "steps": steps, "remove": rnd.random() < 0.4 and not removed_mid,
            "refuse_attach": refuse, "second_equal": rnd.random() < 0.5, "self_removing": rnd.random() < 0.5,
            "priority": rnd.choice([0, 0, 2, 5]), "priority_late": rnd.random() < 0.4,
            "remove_before_ack": rnd.random() < 0.2, "reinstall_before_removal_ack": rnd.random() < 0.15, "chunking": gen.chunking(rnd)}


# ---------------------------------------------------------------------------
# workload B: concurrent via-circuit connections

class AppProto(Protocol):
    def __init__(self):
        self.data = b""

    def dataReceived(self, d):
        self.data += d


@implementer(IStreamClientEndpoint)
class FakeSocksEndpoint(object):
    """stands for 'TCP connection to Tor's SOCKS port'; the harness establishes it"""

    def __init__(self, world, srcport):
        self.world = world
        self.srcport = srcport
        self.proto = None
        self.transport = None
        self.d = None
        self.factory = None

    def connect(self, factory):
        self.factory = factory
        self.d = defer.Deferred()
        return self.d

    def establish(self):
        from twisted.internet.address import IPv4Address
        self.proto = self.factory.buildProtocol(IPv4Address("TCP", "127.0.0.1", 9050))
        self.transport = wire.RecTransport(self.world.clock, host=("127.0.0.1", self.srcport),
                                           peer=("127.0.0.1", 9050))
        self.proto.makeConnection(self.transport)
        self.d.callback(self.proto)


def run_via(case, rec):
    circuits = [(1, "BUILT", 3), (2, "BUILT", 3), (3, "EXTENDED", 2)]
    w = World(circuits, chunking=case.get("chunking") or (1 << 30,))
    if not w.boot_ok:
        rec.violation("state-bootstrap-failed", "bootstrap", {"exc": w.exceptions}, case)
        rec.case(case, nontrivial=False)
        w.close()
        return
    conns = {}
    for c in case["conns"]:
        ep = FakeSocksEndpoint(w, c["srcport"])
        circ = w.state.circuits[c["circ"]]
        tep = circ.stream_via(w.reactor, c["host"], c["port"], ep)
        fac = Factory.forProtocol(AppProto)
        conns[c["i"]] = {"spec": c, "ep": ep, "tep": tep, "factory": fac, "outcome": None,
                         "announced": False, "request_seen": False, "attach_line_at_completion": None}
    notes = []

    def socks_progress(cn):
        """play the SOCKS server as far as causality allows"""
        ep = cn["ep"]
        if ep.transport is None:
            return
        data = ep.transport.value()
        if not cn.get("method_sent") and data.startswith(b"\x05\x01\x00"):
            cn["method_sent"] = True
            ep.proto.dataReceived(b"\x05\x00")
            data = ep.transport.value()
        if cn.get("method_sent") and len(data) > 3:
            cn["request_seen"] = True

    for step in case["steps"]:
        op = step[0]
        if op == "connect":
            cn = conns[step[1]]
            if cn["spec"].get("late"):
                old = conns[cn["spec"]["after"]]
                if not (old.get("socks_dead") or (old.get("ended") and not old.get("reused_by"))):
                    continue        # its local port is still in use: the OS would not hand it out
            d = cn["tep"].connect(cn["factory"])
            cn["outcome"] = w.aud.watch(d, "connect%d" % step[1])
            if not case.get("burst"):
                w.pump()
        elif op == "pump":
            w.pump()
        elif op == "end-stream":
            cn = conns[step[1]]
            c = cn["spec"]
            if cn.get("succeeded") and not cn.get("ended") and not cn.get("reused_by"):
                w.stream_event(c["sid"], "CLOSED", cn.get("tor_chose") or c["circ"], "%s:%d" % (c["host"], c["port"]), " REASON=DONE")
                cn["ended"] = True
        elif op == "establish":
            cn = conns[step[1]]
            if cn["ep"].d is not None and cn["ep"].proto is None and not cn.get("socks_dead"):
                cn["ep"].establish()
                socks_progress(cn)
                w.pump()
        elif op == "socks-lost":
            # this connection's SOCKS link dies before Tor announced its stream
            cn = conns[step[1]]
            if cn["ep"].proto is not None and not cn["announced"] and not cn.get("socks_dead"):
                from twisted.internet.error import ConnectionLost
                from twisted.python.failure import Failure
                cn["socks_dead"] = True
                rec.count("sibling_socks_failures")
                try:
                    cn["ep"].proto.connectionLost(Failure(ConnectionLost()))
                except Exception as e:
                    w.exceptions.append(("socks-lost", repr(e)))
                w.pump()
        elif op == "socks-refuse":
            # the TCP connection to the SOCKS port is refused
            cn = conns[step[1]]
            if cn["ep"].d is not None and cn["ep"].proto is None and not cn.get("socks_dead"):
                from twisted.internet.error import ConnectionRefusedError
                cn["socks_dead"] = True
                rec.count("sibling_socks_failures")
                cn["ep"].d.errback(ConnectionRefusedError())
                w.pump()
        elif op == "announce":
            cn = conns[step[1]]
            socks_progress(cn)
            if cn.get("socks_dead"):
                continue
            if not cn["request_seen"] or cn["announced"]:
                notes.append("announce-skipped")
                continue      # causality: Tor has not seen the SOCKS request yet
            cn["announced"] = True
            c = cn["spec"]
            cn["circ_state_at_announce"] = w.circ_state.get(c["circ"])
            w.stream_event(c["sid"], "NEW", 0, "%s:%d" % (c["host"], c["port"]),
                           " SOURCE_ADDR=127.0.0.1:%d PURPOSE=USER" % c["srcport"])
        elif op == "unrelated":
            sid, srcport, addr = step[1], step[2], step[3]
            w.stream_event(sid, "NEW", 0, step[4], " SOURCE_ADDR=%s:%d PURPOSE=USER" % (addr, srcport))
        elif op == "circ":
            w.circ_event(step[1], step[2], step[3] if len(step) > 3 else None)
        elif op == "succeed":
            cn = conns[step[1]]
            c = cn["spec"]
            att = [(s, ci) for (s, ci, _) in w.attach_lines if s == c["sid"]]
            if not cn["announced"] or not att or cn.get("succeeded"):
                continue
            # Tor attaches as told (or, told "0", to a circuit of its own choice), connects,
            # then answers the SOCKS request
            cid = att[0][1]
            if cid == 0:
                others = [k for k, v in sorted(w.circ_state.items()) if v == "BUILT" and k != c["circ"]]
                if not others:
                    continue
                cid = others[0]
                cn["tor_chose"] = cid
            if w.circ_state.get(cid) != "BUILT":
                continue
            cn["succeeded"] = True
            w.stream_event(c["sid"], "SENTCONNECT", cid, "%s:%d" % (c["host"], c["port"]))
            w.stream_event(c["sid"], "SUCCEEDED", cid, "10.1.2.3:%d" % c["port"])
            cn["ep"].proto.dataReceived(b"\x05\x00\x00\x01\x00\x00\x00\x00\x00\x00")
            w.pump()
        elif op == "reuse":
            # the connection is over; later an unrelated client reuses its source port
            cn = conns[step[1]]
            c = cn["spec"]
            if not cn.get("succeeded"):
                continue
            w.stream_event(c["sid"], "CLOSED", cn.get("tor_chose") or c["circ"], "%s:%d" % (c["host"], c["port"]), " REASON=DONE")
            w.stream_event(step[2], "NEW", 0, "reuse.example:80", " SOURCE_ADDR=127.0.0.1:%d PURPOSE=USER" % c["srcport"])
            cn["reused_by"] = step[2]
            cn["ended"] = True
    w.pump()
    # ---- oracle
    unrelated = {s[1]: s for s in case["steps"] if s[0] == "unrelated"}
    closed_circs = {st[1] for st in case["steps"] if st[0] == "circ" and st[2] in ("CLOSED", "FAILED")}
    for i, cn in conns.items():
        c = cn["spec"]
        o = cn["outcome"]
        if (o is not None and o.fired and not o.ok and cn["ep"].d is None
                and c["circ"] in (1, 2) and c["circ"] not in closed_circs):
            # bounded progress: the circuit was BUILT all along and the SOCKS endpoint was never even
            # tried, yet connect() failed by itself
            rec.count("via_connections_judged")
            rec.violation("connect-failed-before-connecting-although-circuit-usable", "via-circuit/concurrent-first-use"
                          if case.get("burst") else "via-circuit/circuit-built",
                          {"conn": c, "outcome": o.describe()}, case)
        if not cn["announced"]:
            continue
        icls = "via-circuit/%s" % ("circuit-" + (cn.get("circ_state_at_announce") or "gone").lower())
        if c.get("late"):
            icls += "+local-port-of-a-dead-connection-reused"
            rec.count("via_connections_on_a_reused_local_port")
        got = [(s, ci) for (s, ci, _) in w.attach_lines if s == c["sid"]]
        if cn.get("circ_state_at_announce") != "BUILT":
            rec.count("via_circuit_not_built_at_announce")
            # only safety: never attached to a different specific circuit, connect() never succeeds
            if any(ci not in (0, c["circ"]) for (_, ci) in got):
                rec.violation("via-stream-attached-to-other-circuit", icls, {"conn": c, "got": got}, case)
            o = cn["outcome"]
            if cn.get("tor_chose") and o is not None and o.fired and o.ok:
                rec.count("via_connections_judged")
                rec.violation("connect-succeeded-although-stream-is-on-another-circuit", icls,
                              {"conn": c, "tor_attached_to": cn["tor_chose"]}, case)
            elif cn.get("tor_chose"):
                rec.count("via_connections_judged")
            continue
        rec.count("via_connections_judged")
        if got != [(c["sid"], c["circ"])]:
            rec.violation("via-stream-not-attached-to-its-circuit", icls, {"conn": c, "got": got}, case)
        o = cn["outcome"]
        if o is not None and o.fired and o.ok and not cn.get("succeeded"):
            rec.violation("connect-completed-before-attachment-and-success", icls, {"conn": c}, case)
        if o is not None and cn.get("succeeded") and got == [(c["sid"], c["circ"])]:
            if o.fired != 1 or not o.ok:
                rec.violation("connect-did-not-complete", icls, {"conn": c, "outcome": o.describe()}, case)
    for cn in conns.values():
        if cn.get("reused_by"):
            rec.count("streams_judged")
            got = [(s, ci) for (s, ci, _) in w.attach_lines if s == cn["reused_by"]]
            if got != [(cn["reused_by"], 0)]:
                rec.violation("unrelated-stream-captured-or-undecided", "unrelated/source-port-reused-later",
                              {"conn": cn["spec"], "got": got}, case)
    for sid, st in unrelated.items():
        rec.count("streams_judged")
        got = [(s, ci) for (s, ci, _) in w.attach_lines if s == sid]
        icls = "unrelated/%s" % ("same-port-other-address" if st[3] != "127.0.0.1" else "other-port")
        if got != [(sid, 0)]:
            rec.violation("unrelated-stream-captured-or-undecided", icls, {"stream": st, "got": got}, case)
    sids = {c["spec"]["sid"] for c in conns.values()} | set(unrelated) | {c.get("reused_by") for c in conns.values()}
    for (s, ci, _) in w.attach_lines:
        if s not in sids:
            rec.violation("decision-for-unknown-stream", "general", {"sid": s}, case)
    sc = [l for l in w.tor.lines if l.startswith("SETCONF")]
    if any(cn["outcome"] is not None for cn in conns.values()) and sc != ["SETCONF __LeaveStreamsUnattached=1"]:
        rec.violation("attacher-install-setconf", "via-circuit", {"lines": sc}, case)
    for e in w.exceptions:
        rec.violation("exception-escaped", "via-circuit", {"exc": e}, case)
        break
    logged = w.log.take()
    rec.count("log_errors_seen", len(logged))
    rec.seen("announce_orders", "".join("%s%s" % (s[0][0], s[1]) for s in case["steps"] if s[0] in ("announce", "unrelated", "circ")))
    rec.case(case, nontrivial=any(cn["announced"] for cn in conns.values()))
    w.close()


def gen_via_case(rnd, nconn=None, perm=None):
    n = nconn or rnd.choice([1, 2, 2, 3, 4, 5])
    conns = []
    for i in range(n):
        same_host = rnd.random() < 0.5
        conns.append({"i": i, "circ": rnd.choice([1, 2]) if rnd.random() < 0.85 else 3,
                      "host": "same.example" if same_host else "host%d.example" % i,
                      "port": 80 if same_host else rnd.choice([80, 443, 8080]),
                      "srcport": 50000 + i, "sid": 100 + i})
    steps = []
    for c in conns:
        steps.append(("connect", c["i"]))
    steps.append(("pump",))
    est = [("establish", c["i"]) for c in conns]
    rnd.shuffle(est)
    steps += est
    ann = [("announce", c["i"]) for c in conns]
    lost_victim = None
    if n >= 2 and rnd.random() < 0.35:
        victim = rnd.randrange(n)
        if rnd.random() < 0.5:
            steps.append(("socks-lost", victim))            # after every link is up, before any announcement
            lost_victim = victim
        else:
            k = steps.index(("establish", victim))
            steps[k] = ("socks-refuse", victim)
    extra = []
    for k in range(rnd.choice([0, 1, 2, 3])):
        if rnd.random() < 0.3:
            # same source port as one of ours, but another source address
            extra.append(("unrelated", 200 + k, 50000 + rnd.randrange(n), "10.9.8.7", "other.example:80"))
        else:
            extra.append(("unrelated", 200 + k, 61000 + k, "127.0.0.1",
                          rnd.choice(["same.example:80", "other.example:443"])))
    if rnd.random() < 0.4:
        extra.append(("circ", 3, "BUILT", 3))
    if rnd.random() < 0.3:
        extra.append(("circ", rnd.choice([1, 2]), rnd.choice(["CLOSED", "FAILED"])))
    if rnd.random() < 0.3:
        extra.append(("circ", 7, "LAUNCHED", 0))
    mid = ann + extra
    if perm is not None:
        mid = [mid[k] for k in perm if k < len(mid)]
    else:
        rnd.shuffle(mid)
    steps += mid
    succ = [("succeed", c["i"]) for c in conns]
    rnd.shuffle(succ)
    steps += succ
    for c in conns:
        if rnd.random() < 0.3:
            steps.append(("reuse", c["i"], 300 + c["i"]))
    late_after = None
    if lost_victim is not None and rnd.random() < 0.7:
        late_after = lost_victim
    elif rnd.random() < 0.3:
        late_after = rnd.randrange(n)
    if late_after is not None:
        # later the OS hands the local port of a connection that is over (its SOCKS link died
        # unannounced, or it completed and its stream ended) to a new via-circuit connection that
        # goes through another circuit; the old connection's circuit may close meanwhile
        v = conns[late_after]
        late = {"i": n, "circ": {1: 2, 2: 1}.get(v["circ"], 1), "host": "late.example", "port": 443,
                "srcport": v["srcport"], "sid": 100 + n, "late": True, "after": late_after}
        conns.append(late)
        steps += [("end-stream", late_after), ("connect", n), ("pump",), ("establish", n)]
        if v["circ"] in (1, 2) and rnd.random() < 0.5:
            steps.append(("circ", v["circ"], rnd.choice(["CLOSED", "FAILED"])))
        steps += [("announce", n), ("succeed", n)]
    return {"kind": "via", "conns": conns, "steps": steps, "chunking": gen.chunking(rnd),
            "burst": rnd.random() < 0.5}


# ---------------------------------------------------------------------------

def run_case(case, rec):
    if case["kind"] == "answers":
        run_answers(case, rec)
    else:
        run_via(case, rec)


def _tuplify(case):
    case["steps"] = [tuple(s) for s in case["steps"]]
    return case


def run_shard(spec, rec):
    mode = spec["mode"]
    if mode == "answers-product":
        combos = list(itertools.product(KINDS, ANSWERS, MODES))
        mine = [c for i, c in enumerate(combos) if i % spec["of"] == spec["part"]]
        for rep in range(spec.get("reps", 2)):
            for j, combo in enumerate(mine):
                rnd = gen.rnd_for(spec["seed"], "C09p", spec["shard"], rep, j)
                case = gen_answers_case(rnd, combo)
                run_case(case, rec)
                if rep == 0 and j < 2:
                    rec.sample(case)
        rec.enumerated("stream kind x attacher answer x delivery mode (120 cells)")
    elif mode == "answers-random":
        for i in range(spec["n"]):
            rnd = gen.rnd_for(spec["seed"], "C09a", spec["shard"], i)
            run_case(gen_answers_case(rnd), rec)
    elif mode == "via-random":
        for i in range(spec["n"]):
            rnd = gen.rnd_for(spec["seed"], "C09v", spec["shard"], i)
            case = gen_via_case(rnd)
            run_case(case, rec)
            if i < 2:
                rec.sample(case)
    elif mode == "via-orders":
        # every order of the announcements of n concurrent connections + 1 unrelated stream
        n = spec["nconn"]
        k = 0
        for perm in itertools.permutations(range(n + 1)):
            k += 1
            if k % spec["of"] != spec["part"]:
                continue
            rnd = gen.rnd_for(spec["seed"], "C09o", n)       # same connections for every order
            case = gen_via_case(rnd, nconn=n)
            ann = [s for s in case["steps"] if s[0] == "announce"]
            other = [("unrelated", 200, 61000, "127.0.0.1", "same.example:80")]
            mid = ann + other
            pre = [s for s in case["steps"] if s[0] in ("connect", "pump", "establish", "socks-lost", "socks-refuse")]
            post = [s for s in case["steps"] if s[0] == "succeed"]
            case["steps"] = pre + [mid[i] for i in perm] + post
            run_case(case, rec)
        rec.enumerated("all orders of %d concurrent announcements + 1 unrelated stream" % n)


def replay(case, rec):
    run_case(_tuplify(case), rec)


def plan(tier, seed):
    if tier == "quick":
        sp = [{"mode": "answers-product", "part": i, "of": 4, "reps": 2} for i in range(4)]
        sp += [{"mode": "answers-random", "n": 120} for _ in range(4)]
        sp += [{"mode": "via-random", "n": 120} for _ in range(5)]
        sp += [{"mode": "via-orders", "nconn": 3, "part": 0, "of": 1}, {"mode": "via-orders", "nconn": 4, "part": 0, "of": 2},
               {"mode": "via-orders", "nconn": 4, "part": 1, "of": 2}]
    else:
        sp = [{"mode": "answers-product", "part": i, "of": 4, "reps": 12} for i in range(4)]
        sp += [{"mode": "answers-random", "n": 2500} for _ in range(4)]
        sp += [{"mode": "via-random", "n": 2500} for _ in range(6)]
        sp += [{"mode": "via-orders", "nconn": 4, "part": 0, "of": 1}]
        sp += [{"mode": "via-orders", "nconn": 5, "part": i, "of": 4} for i in range(4)]
    return sp
