"""C07 - the live state lists exactly Tor's circuits and streams, attachments consistent.

Monitor: the real ``TorState`` bootstrapped over the real ``TorControlProtocol`` against
FakeTor + TorSim (vf.faketor.torsim).  TorSim generates a legal population (served as the
``circuit-status`` / ``stream-status`` snapshot during the bootstrap) and a legal history of
``650 CIRC`` / ``650 STREAM`` events; after the bootstrap and after EVERY event the public
view (``state.circuits``, ``state.streams`` and the attributes of their members) is compared
with TorSim's ground truth.  See DESIGN.md section 2 / C07.
"""
import ipaddress

from .. import gen
from ..faketor import torsim

PROPERTY = "C07"
READY = True
LEVEL = "exploration"
TECHNIQUE = ("runtime monitoring: real TorState driven by a reference life-cycle model (TorSim) that generates "
             "snapshots + event histories and is the ground truth; full state oracle after every event")
LEVEL_TEXT = ("Held on the executions observed: thousands (quick) to ~10^5 (thorough) generated histories of up to 60 "
              "events over <= 6 circuits and <= 8 streams, each preceded by a generated status snapshot, the complete "
              "oracle (both id sets, per-object attributes, attachment in both directions) evaluated after every "
              "event. Random sampling of histories; not a proof for histories not generated.")
LEVEL_NOTE = ("Trusted: TorSim (reference model written from control-spec 4.1.1/4.1.2 and Tor's emission order, "
              "self-tested for model invariants and event grammar), FakeTor, the reply encoder. Events are delivered "
              "only after TorState has subscribed; nothing happens in the window between snapshot and SETEVENTS.")
RULE = ("a case = one population (0..50 unobserved model steps, served as snapshot in the empty / inline / data-block "
        "shapes) + in 30% of the cases some steps in the subscription window + one history of 8..60 legal model steps + bootstrap style (TorState(proto) | from_protocol) + "
        "segmentation of the server byte stream. Distinct = hash of (population, history, style, segmentation). "
        "Non-trivial = at least one event was delivered and compared while >= 1 circuit or stream was live.")
ASSUMPTIONS = [
    "Tor emits events as modelled by TorSim (see module docstring of vf/faketor/torsim.py)",
    "between GETINFO stream-status and the SETEVENTS that subscribes STREAM only new streams appear (and take "
    "further steps); the state is compared with what Tor has REPORTED: such a stream is expected from the first line "
    "Tor sends about it after the subscription (any status), not before",
    "a connect stream that fails may be reported as FAILED followed by CLOSED (Tor does that): it must be gone after "
    "FAILED and still be gone after the trailing CLOSED",
    "stream targets never coincide with address-map entries (TorState would translate them to names)",
    "a stream's compared target is host:port of the first line Tor reported for it; target_addr is compared only "
    "after a REMAP was reported; source address/port only if a SOURCE_ADDR was reported (snapshot lines carry none)",
    "BUILD_FLAGS of one circuit is either always present or always absent",
    "relays outside the consensus may carry the nickname of a consensus relay (nicknames are not unique); every hop "
    "of Circuit.path must have exactly the fingerprint Tor reported",
    "IPv6 literals may be kept with or without brackets",
    "XOFF_SENT/XOFF_RECV/XON_SENT/XON_RECV lines (Tor >= 0.4.7) are not among the event kinds of the quantifier: what "
    "Stream.state reads after one is not judged until the next life-cycle line; that no exception escapes, the stream "
    "stays listed with its target and attachment, and later lines are processed, is",
    "SOCKS_USERNAME/SOCKS_PASSWORD keywords (QuotedStrings) may be kept in wire form or unescaped; a quoted value "
    "containing a blank is not judged, everything else about that line is",
    "in a quarter of the cases a minimal IStreamAttacher is installed after the bootstrap (set_attacher): TorSim then "
    "leaves new streams to the controller and executes the ATTACHSTREAM commands txtorcon sends; streams the attacher "
    "declines stay unattached; the oracle is the same",
    "a CIRC line without a Path is only generated where Tor sends one (LAUNCHED, FAILED of a circuit with no hop yet): "
    "Tor prints the open hops of the circuit on every other line and hops never go away again",
    "a stream whose circuit died and that Tor has not yet reported may still reference the dead circuit object",
    "Tor may report circuit 0 for an attached, not yet connected stream on a REMAP line (a controller re-attached it: "
    "no DETACHED is sent); from then on the stream is on no circuit",
    "Tor may also report SENTCONNECT on another circuit with no line in between (the quantifier only names "
    "re-attachment after detach): which of the two circuits the client then shows is not judged until the next "
    "DETACHED / REMAP 0, but Stream.circuit and the Circuit.streams lists must agree with each other, and the stream "
    "must be gone when it ends",
    "in a fifth of the cases two state-wide circuit and stream listeners are registered which unlisten themselves "
    "from the object inside its closed/failed notification (one-shot clean-up); the oracle is the same",
]
TRUSTED_BASE = ["vf.faketor.torsim.TorSim (model, generator and ground truth)", "vf.faketor.core.FakeTor / Link",
                "vf.refs.reply encoder"]
ANCHORS = [
    "txtorcon.torstate:TorState._circuit_update",
    "txtorcon.torstate:TorState._stream_update",
    "txtorcon.torstate:TorState._circuit_status",
    "txtorcon.torstate:TorState._stream_status",
    "txtorcon.torstate:TorState.circuit_destroy",
    "txtorcon.torstate:TorState.stream_closed",
    "txtorcon.torstate:TorState.stream_failed",
    "txtorcon.torstate:TorState.router_from_id",
    "txtorcon.stream:Stream.update",
    "txtorcon.circuit:Circuit.update",
    "txtorcon.circuit:Circuit.update_path",
]
FLOORS = {
    "quick": {"evaluations": 350, "oracle_evaluations": 7000, "events_delivered": 7000,
              "circuits_compared": 14000, "streams_compared": 14000, "attachments_compared": 4200,
              "snapshot_entries": 800, "circuit_id_reused": 400, "stream_id_reused": 550,
              "circuit_died_under_streams": 200, "detached_after_circuit_died": 70,
              "reattached_to_other_circuit": 70, "hop_not_in_consensus": 700, "hop_outside_consensus_named_like_consensus_relay": 350, "cannibalized": 35,
              "closed_after_failed_delivered": 150, "stream_first_seen_in_mid_life": 150, "unattached_by_remap_0": 60,
              "objects_with_quoted_keywords": 500, "quoted_flag_values_compared": 2500,
              "flag_values_with_blank_not_judged": 2000,
              "flow_control_lines": 100, "moved_without_detached": 35, "moved_streams_compared": 100, "cases_with_one_shot_listeners": 80,
              "listeners_unlistened_inside_final_notification": 450,
              "cases_with_attacher": 100, "attachstream_commands": 250, "failed_streams_with_attacher": 100,
              "reach:txtorcon.stream:Stream.update": 4200, "reach:txtorcon.circuit:Circuit.update": 4200,
              "reach:txtorcon.torstate:TorState.circuit_destroy": 700,
              "reach:txtorcon.torstate:TorState._stream_status": 350},
    "thorough": {"evaluations": 10000, "oracle_evaluations": 250000, "events_delivered": 250000,
                 "circuits_compared": 500000, "streams_compared": 500000, "attachments_compared": 150000,
                 "snapshot_entries": 30000, "circuit_died_under_streams": 8000, "circuit_id_reused": 15000,
                 "reattached_to_other_circuit": 2500, "hop_outside_consensus_named_like_consensus_relay": 8000, "unattached_by_remap_0": 1500},
}

SIM_STATS = ["flow_control_lines", "moved_without_detached", "objects_with_quoted_keywords", "unattached_by_remap_0", "failed_closed_pairs", "stream_first_seen_in_mid_life", "circuit_id_reused", "stream_id_reused", "circuit_died_under_streams",
             "detached_after_circuit_died", "ended_after_circuit_died", "reattached_after_detach",
             "reattached_to_other_circuit", "hop_not_in_consensus",
             "hop_outside_consensus_named_like_consensus_relay", "cannibalized",
             "purpose_changed_while_building"]


# ---------------------------------------------------------------------------
# case generation

def gen_case(rnd, tier="quick"):
    pre_steps = rnd.choice([0, 0, 1, 2, 3, 4, 6, 9, 14, 20, 30, 50])
    n = rnd.choice([8, 12, 20, 30, 40]) if tier == "quick" else rnd.choice([10, 20, 30, 40, 60])
    limits = rnd.choice([[6, 8], [6, 8], [6, 8], [3, 8], [6, 3], [2, 2], [1, 4]])
    pre, win, hist = torsim.script_w(rnd, pre_steps, n, window=rnd.random() < 0.3,
                                     max_circuits=limits[0], max_streams=limits[1])
    r = rnd.random()
    chunking = [1 << 30] if r < 0.8 else ([1] if r < 0.85 else [rnd.randint(2, 40)])
    attacher = None
    if rnd.random() < 0.25:
        attacher = {"answer": rnd.choice(["none", "none", "do_not_attach", "first_built", "deferred_none"]),
                    "failure_method": rnd.choice(["missing", "raising", "recording"])}
    one_shot = rnd.choice([1, 2, 2, 3]) if rnd.random() < 0.2 else 0
    return {"pre": pre, "window": win, "hist": hist, "attacher": attacher, "one_shot_listeners": one_shot, "boot": "ctor" if rnd.random() < 0.6 else "from_protocol",
            "chunking": chunking, "limits": limits}


# ---------------------------------------------------------------------------
# oracle

def _ip_norm(text):
    t = text.strip("[]")
    try:
        return str(ipaddress.ip_address(t))
    except ValueError:
        return text


def _host_eq(got, want):
    if got is None:
        return False
    got = str(got)
    return got == want or got == want.strip("[]") or _ip_norm(got) == _ip_norm(want)


def flags_equal(got, want, rec=None):
    """keyword dict of the last line: same keys; a value Tor sent as QuotedString may be kept in its
    wire form or unescaped; a quoted value with a blank inside is not judged (a client that splits
    the line on blanks cannot be told what to make of it by the statement)"""
    from ..refs import kvline
    if set(got) != set(want):
        return False
    for k, v in want.items():
        if v.startswith('"'):
            if " " in v:
                if rec is not None:
                    rec.count("flag_values_with_blank_not_judged")
                continue
            if got[k] not in (v, kvline.unescape(v[1:-1])):
                return False
            if rec is not None:
                rec.count("quoted_flag_values_compared")
        elif got[k] != v:
            return False
    return True


def circ_class(m):
    return "first-seen=%s,last=%s" % (m.first_seen.split("-")[0], m.status)


def stream_class(m, clause=None):
    if clause == "stream-target":
        return "first-seen=" + m.first_seen
    return "first-seen=%s,last=%s" % (m.first_seen, m.status)


def compare(state, sim, rec=None):
    """the C07 oracle: [(clause, input_class, detail, (kind, uid))] for every disagreement
    between the public view of `state` and TorSim's ground truth"""
    out = []

    def V(clause, cls, detail, who):
        out.append((clause, cls, detail, who))

    known_c, known_s = sim.known_circuits(), sim.known_streams()
    got_c, want_c = set(state.circuits), set(known_c)
    if got_c != want_c:
        dead = {c.id: c for c in getattr(sim, "dead_circuits", {}).values()}
        for cid in sorted(got_c - want_c):
            d = dead.get(cid)
            V("circuit-set", "kept-after-%s" % (d.final_status if d else "never-existed"),
              {"extra": cid, "state_has": sorted(got_c), "tor_has": sorted(want_c)}, ("c-extra", cid))
        for cid in sorted(want_c - got_c):
            V("circuit-set", "missing,first-seen=%s" % sim.circuits[cid].first_seen,
              {"missing": cid, "state_has": sorted(got_c), "tor_has": sorted(want_c)}, ("c", sim.circuits[cid].uid))
    got_s, want_s = set(state.streams), set(known_s)
    if got_s != want_s:
        dead = {s.id: s for s in getattr(sim, "dead_streams", {}).values()}
        for sid in sorted(got_s - want_s):
            d = dead.get(sid)
            V("stream-set", "kept-after-%s" % (d.final_status if d else "never-existed"),
              {"extra": sid, "state_has": sorted(got_s), "tor_has": sorted(want_s)}, ("s-extra", sid))
        for sid in sorted(want_s - got_s):
            V("stream-set", "missing,first-seen=%s" % sim.streams[sid].first_seen,
              {"missing": sid, "state_has": sorted(got_s), "tor_has": sorted(want_s)}, ("s", sim.streams[sid].uid))

    live_circ_objs = {}
    n_c = 0
    for cid in sorted(got_c & want_c):
        c, m = state.circuits[cid], sim.circuits[cid]
        live_circ_objs[cid] = c
        who = ("c", m.uid)
        n_c += 1
        if c.id != cid:
            V("circuit-id", circ_class(m), {"key": cid, "object_id": c.id}, who)
        if c.state != m.status:
            V("circuit-state", circ_class(m), {"id": cid, "got": c.state, "want": m.status}, who)
        if c.purpose != m.purpose:
            V("circuit-purpose", circ_class(m), {"id": cid, "got": c.purpose, "want": m.purpose}, who)
        if not flags_equal(dict(c.flags), m.last_keywords, rec):
            V("circuit-flags", circ_class(m) + (",quoted-value" if any(v.startswith('"') for v in m.last_keywords.values()) else ""),
              {"id": cid, "got": dict(c.flags), "want": m.last_keywords}, who)
        if list(c.build_flags) != list(m.build_flags):
            V("circuit-build-flags", circ_class(m), {"id": cid, "got": list(c.build_flags), "want": m.build_flags}, who)
        want_path = sim.path_ids(m)
        try:
            got_path = [r.id_hex for r in c.path]
        except Exception as e:          # noqa
            got_path = repr(e)
        if got_path != want_path:
            outside = any(not sim.relays[i].in_consensus for i, _ in m.path)
            twin = any(st != "bare" and sim.nick_collides(i) for i, st in m.path)
            V("circuit-path", circ_class(m) + (",relay-outside-consensus" if outside else "")
              + (",nickname-of-consensus-relay" if twin else ""),
              {"id": cid, "got": got_path, "want": want_path}, who)
    n_s = n_att = 0
    stream_objs = {}
    moved = {}          # streams Tor moved to another circuit without DETACHED: which one is shown is open
    for sid in sorted(got_s & want_s):
        s, m = state.streams[sid], sim.streams[sid]
        stream_objs[sid] = s
        who = ("s", m.uid)
        n_s += 1
        if s.id != sid:
            V("stream-id", stream_class(m), {"key": sid, "object_id": s.id}, who)
        if m.state_unjudged:
            if rec is not None:
                rec.count("stream_status_not_judged_after_flow_control_line")
        elif s.state != m.status:
            V("stream-state", stream_class(m), {"id": sid, "got": s.state, "want": m.status}, who)
        th, tp = m.reported_target
        try:
            port_ok = int(s.target_port) == tp
        except Exception:               # noqa
            port_ok = False
        if not _host_eq(s.target_host, th) or not port_ok:
            V("stream-target", stream_class(m, "stream-target"),
              {"id": sid, "got": [None if s.target_host is None else str(s.target_host), s.target_port],
               "want": [th, tp], "last_status": m.status}, who)
        if m.reported_remap is not None and not _host_eq(s.target_addr, m.reported_remap):
            V("stream-target-addr", stream_class(m),
              {"id": sid, "got": None if s.target_addr is None else str(s.target_addr), "want": m.reported_remap}, who)
        if m.reported_source is not None:
            sa, sp = m.reported_source
            if not _host_eq(s.source_addr, sa) or s.source_port != sp:
                V("stream-source", stream_class(m) + (",ipv6-source" if ":" in sa else ""),
                  {"id": sid, "got": [None if s.source_addr is None else str(s.source_addr), s.source_port],
                   "want": [sa, sp]}, who)
        truth = sim.circuit_of(sid)
        if m.moved_unjudged:
            moved[sid] = (s, m)
        elif truth is None:
            if s.circuit is not None:
                V("stream-circuit", stream_class(m) + ",tor=unattached",
                  {"id": sid, "got": getattr(s.circuit, "id", repr(s.circuit)), "want": None}, who)
        elif truth[0] == "live":
            n_att += 1
            if s.circuit is None or s.circuit is not state.circuits.get(truth[1]):
                V("stream-circuit", stream_class(m) + ",tor=attached",
                  {"id": sid, "got": getattr(s.circuit, "id", None), "want": truth[1],
                   "same_object": s.circuit is state.circuits.get(truth[1])}, who)
        else:
            if s.circuit is not None and any(s.circuit is c for c in state.circuits.values()):
                V("stream-circuit", stream_class(m) + ",tor=circuit-died",
                  {"id": sid, "got": getattr(s.circuit, "id", None), "want": "none or the dead circuit %d" % truth[1]}, who)
    # the other direction: every live circuit lists exactly its streams, once
    for cid, c in live_circ_objs.items():
        m = sim.circuits[cid]
        want = [stream_objs[sid] for sid in sim.streams_on(cid, reported_only=True)
                if sid in stream_objs and sid not in moved]
        got = [x for x in c.streams if not any(x is ms for ms, _ in moved.values())]
        bad = None
        for x in got:
            n = sum(1 for y in got if y is x)
            if n > 1:
                bad = ("duplicate", getattr(x, "id", None))
            elif not any(x is w for w in want):
                live = any(x is v for v in state.streams.values())
                sid = getattr(x, "id", None)
                ms = sim.streams.get(sid) if live else None
                how = "stale-member-gone-stream" if not live else (
                    "member-of-wrong-circuit,tor=%s" % ("unattached" if ms is not None and not ms.circ else
                                                       "circuit-died" if ms is not None and ms.circ_dead else "other-circuit"))
                bad = (how, sid)
        for w in want:
            if not any(w is x for x in got):
                ms = sim.streams.get(w.id)
                bad = ("missing-member" + (",member-first-seen-by-flow-control-line"
                                           if ms is not None and ms.first_seen == "event-flow-control-line" else ""), w.id)
        if bad:
            V("circuit-streams", "%s,circuit-last=%s" % (bad[0], m.status),
              {"circuit": cid, "got": [getattr(x, "id", None) for x in got],
               "want": sim.streams_on(cid, reported_only=True), "problem": bad}, ("c", m.uid))
    for sid, (s, m) in moved.items():
        # whichever circuit the client shows: one of those Tor named, and consistently in both directions
        listed = {cid: sum(1 for x in c.streams if x is s) for cid, c in live_circ_objs.items()}
        shown = s.circuit
        shown_live = [cid for cid, c in live_circ_objs.items() if c is shown]
        ok_ids = set(m.moved_ids)
        bad = None
        if shown_live:
            if shown_live[0] not in ok_ids:
                bad = "shows-a-third-circuit"
            elif listed[shown_live[0]] != 1 or any(n for cid, n in listed.items() if cid != shown_live[0]):
                bad = "circuit-and-lists-disagree"
        elif any(listed.values()):
            bad = "listed-but-shows-no-live-circuit"
        if rec is not None:
            rec.count("moved_streams_compared")
        if bad:
            V("stream-circuit-inconsistent", "moved-without-DETACHED," + bad,
              {"id": sid, "stream.circuit": getattr(shown, "id", None), "listed_under": {k: v for k, v in listed.items() if v},
               "tor": {"now_on": m.circ, "moved_between": sorted(m.moved_ids)}}, ("s", m.uid))
    if rec is not None:
        rec.count("oracle_evaluations")
        rec.count("circuits_compared", n_c)
        rec.count("streams_compared", n_s)
        rec.count("attachments_compared", n_att)
    return out


# ---------------------------------------------------------------------------
# one execution

class Reporter(object):
    """de-duplicates violations per (clause, object) within one case"""
    def __init__(self, rec, case):
        self.rec = rec
        self.case = case
        self.done = set()
        self.n = 0

    def report(self, found, step, ev=None, errors=()):
        for (clause, cls, detail, who) in found:
            k = (clause, who)
            if k in self.done:
                continue
            self.done.add(k)
            self.n += 1
            d = dict(detail)
            d["after_step"] = step
            if ev is not None:
                d["event"] = ev
            if errors:
                d["logged_errors"] = list(errors)[:3]
            self.rec.violation(clause, cls, d, self.case)


def install_one_shot_listeners(state, n, rec):
    """state-wide listeners that take themselves off an object inside its final notification"""
    from txtorcon.interface import CircuitListenerMixin, StreamListenerMixin

    class C(CircuitListenerMixin):
        def circuit_closed(self, circuit, **kw):
            rec.count("listeners_unlistened_inside_final_notification")
            circuit.unlisten(self)
        circuit_failed = circuit_closed

    class S(StreamListenerMixin):
        def stream_closed(self, stream, **kw):
            rec.count("listeners_unlistened_inside_final_notification")
            stream.unlisten(self)
        stream_failed = stream_closed
    for _ in range(n):
        state.add_circuit_listener(C())
        state.add_stream_listener(S())


def install_attacher(state, spec, rec):
    """a minimal IStreamAttacher, as applications write them: attach_stream() answers None /
    DO_NOT_ATTACH / the first BUILT circuit (directly or through a Deferred); the optional
    attach_stream_failure() is missing (as in the project's own tests and examples), raises, or
    records.  State tracking must not depend on any of it."""
    from twisted.internet import defer
    from twisted.internet.interfaces import IReactorCore
    from zope.interface import implementer, directlyProvides
    from txtorcon.interface import IStreamAttacher
    from txtorcon import TorState

    class Reactor(object):
        def addSystemEventTrigger(self, *a, **kw):
            return object()

        def removeSystemEventTrigger(self, *a):
            pass
    reactor = Reactor()
    directlyProvides(reactor, IReactorCore)
    answer = spec["answer"]

    @implementer(IStreamAttacher)
    class Attacher(object):
        asked = 0
        failures = 0

        def attach_stream(self, stream, circuits):
            Attacher.asked += 1
            rec.count("attacher_asked")
            if answer == "do_not_attach":
                return TorState.DO_NOT_ATTACH
            if answer == "first_built":
                for c in circuits.values():
                    if c.state == "BUILT":
                        return c
                return None
            if answer == "deferred_none":
                return defer.succeed(None)
            return None
    if spec["failure_method"] == "raising":
        def attach_stream_failure(self, stream, fail):
            Attacher.failures += 1
            raise RuntimeError("attacher double raises in attach_stream_failure")
        Attacher.attach_stream_failure = attach_stream_failure
    elif spec["failure_method"] == "recording":
        def attach_stream_failure(self, stream, fail):
            Attacher.failures += 1
        Attacher.attach_stream_failure = attach_stream_failure
    state._attacher_error = lambda fail: None        # (it prints; the project's tests patch it too)
    d = state.set_attacher(Attacher(), reactor)
    if d is not None:
        d.addErrback(lambda f: None)
    return Attacher


def run_case(case, rec, mutate_hook=None):
    sim = torsim.TorSim(max_circuits=case["limits"][0], max_streams=case["limits"][1])
    for a in case["pre"]:
        sim.apply(a)
    snap = sim.take_snapshot()
    rep = Reporter(rec, case)
    ses = torsim.SimSession(sim, boot=case["boot"], chunking=case["chunking"], window=case.get("window", ()))
    try:
        shape = "circuits=%s,streams=%s" % tuple(
            "0" if n == 0 else "1" if n == 1 else "many"
            for n in (len(sim.circuits), len(sim.streams)))
        rec.seen("snapshot_shapes", shape)
        rec.count("snapshot_entries", len(snap))
        for ev in snap:
            if ev.kind == "STREAM":
                rec.seen("snapshot_stream_states", ev.status + ("+attached" if ev.text.split()[2] != "0" else ""))
            else:
                rec.seen("snapshot_circuit_states", ev.status)
        if ses.state is None or ses.link.exceptions:
            rec.violation("bootstrap-failed", shape,
                          {"post_bootstrap": str(ses.boot_outcome.describe()), "exceptions": ses.link.exceptions,
                           "logged": ses.errors.take()[:3], "last_lines": ses.tor.lines[-4:]}, case)
            rec.case(case, nontrivial=False)
            return rep
        state = ses.state
        rep.report(compare(state, sim, rec), "snapshot", errors=ses.errors.take())
        if case.get("one_shot_listeners"):
            install_one_shot_listeners(state, case["one_shot_listeners"], rec)
            rec.count("cases_with_one_shot_listeners")
        if case.get("attacher"):
            install_attacher(state, case["attacher"], rec)
            ses.pump()
            rec.count("cases_with_attacher")
            rec.seen("attacher_kinds", "%(answer)s/failure-method-%(failure_method)s" % case["attacher"])
            if not sim.leave_unattached:
                rec.violation("attacher-not-installed", case["attacher"]["answer"],
                              {"lines": ses.tor.lines[-3:]}, case)
            rep.report(compare(state, sim, rec), "attacher-installed", errors=ses.errors.take())
        delivered = 0
        compared_live = False
        last = {}
        for i, act in enumerate(case["hist"]):
            if not sim.legal(act):
                rec.count("steps_skipped_illegal")
                continue
            evs = ses.step(act)
            errs = ses.errors.take()
            if errs:
                rec.count("errors_logged_by_txtorcon", len(errs))
            for ev in evs:
                delivered += 1
                rec.count("events_delivered")
                rec.count("circ_events" if ev.kind == "CIRC" else "stream_events")
                if ev.ghost:
                    rec.count("closed_after_failed_delivered")
                if ev.first_sight and ev.status not in ("LAUNCHED", "NEW", "NEWRESOLVE"):
                    rec.seen("first_seen_by_event_in_state", ev.status)
                k = (ev.kind, ev.uid)
                rec.seen("transitions", "%s %s>%s" % (ev.kind, last.get(k, "(new)"), ev.status))
                last[k] = ev.status
            if ses.link.exceptions:
                ex = ses.link.exceptions[:]
                del ses.link.exceptions[:]
                rec.violation("exception-escaped", "%s-%s" % (evs[0].kind, evs[0].status) if evs else act["a"],
                              {"step": i, "action": act, "exceptions": ex}, case)
            if sim.circuits or sim.streams:
                compared_live = True
            rep.report(compare(state, sim, rec), i, ev=[e.text for e in evs], errors=errs)
        for k in SIM_STATS:
            if sim.stats.get(k):
                rec.count(k, sim.stats[k])
        if case.get("attacher"):
            rec.count("attachstream_commands", sum(1 for w in sim.commands if w[0] == "ATTACHSTREAM"))
            rec.count("failed_streams_with_attacher", sum(
                1 for x in getattr(sim, "dead_streams", {}).values() if getattr(x, "final_status", "") == "FAILED"))
        rec.case(case, nontrivial=bool(delivered and compared_live))
    finally:
        ses.close()
    return rep


def quiet_twisted_log():
    """errors txtorcon logs (e.g. 'Unknown state' for flow-control lines) are captured per case by
    LogCapture; keep Twisted from also printing them"""
    try:
        from twisted.logger import globalLogBeginner
        globalLogBeginner.beginLoggingTo([lambda event: None], redirectStandardIO=False, discardBuffer=True)
    except Exception:       # noqa
        pass


def run_shard(spec, rec):
    quiet_twisted_log()
    for i in range(spec["n"]):
        rnd = gen.rnd_for(spec["seed"], PROPERTY, spec["shard"], i)
        case = gen_case(rnd, spec["tier"])
        run_case(case, rec)
        if i < 1:
            rec.sample({"boot": case["boot"], "chunking": case["chunking"], "limits": case["limits"],
                        "population_steps": len(case["pre"]), "history": case["hist"][:12]})


def replay(case, rec):
    quiet_twisted_log()
    run_case(case, rec)


def plan(tier, seed):
    if tier == "quick":
        return [{"n": 300} for _ in range(14)]
    return [{"n": 4000, "timeout_s": 3000} for _ in range(32)]
