"""C06 - SOCKS5 requests are RFC 1928 well-formed for every target and port.

Monitor: every byte the real client code writes to the SOCKS transport, observed at four
points (after the connection is made, after the first byte of the method reply, after the
whole method reply, after a final request reply), for the real ``_SocksMachine`` driven
directly and for the public entry points ``TorSocksEndpoint.connect``, ``socks.resolve``
and ``socks.resolve_ptr`` on a fake proxy endpoint.
Oracle: the independent RFC 1928 parser ``vf.refs.socks5`` + the *generator's own
knowledge* of the target (IP literals are rendered from the packed bytes by the reference,
so the expected ADDR field is known without parsing the text).  See DESIGN.md section 2 / C06.
"""
import ipaddress

from .. import gen
from ..refs import socks5 as S

PROPERTY = "C06"
READY = True
LEVEL = "exploration"
TECHNIQUE = ("runtime monitoring: wire recorder on the SOCKS transport + independent RFC 1928 request parser as oracle; "
             "complete enumeration of name lengths 1..300 (quick) and of all 65536 ports (thorough), boundary and random "
             "IPv4/IPv6 literals in six text forms")
LEVEL_TEXT = ("Held on the executions observed: every written byte of ~57k (quick) to ~990k (thorough) "
              "handshakes decoded by an independent parser and compared with the requested target/port/command. "
              "Name lengths 1..300 and (thorough) all 65536 ports are enumerated completely; address literals and name "
              "contents are boundary values plus seeded samples - not a proof for unexplored literals/names.")
LEVEL_NOTE = ("Trusted: vf.refs.socks5 (parser and address formatter, self-tested on hand-built messages and cross-checked "
              "against the standard library), the fake proxy endpoint / transport doubles, Twisted's behaviour of dropping a "
              "connection whose dataReceived raised (emulated).")
RULE = ("a case = one target (hostname of a given length and alphabet, IPv4/IPv6 literal in a given text form, over-long or "
        "non-ASCII name) x port x request type (CONNECT / RESOLVE / RESOLVE_PTR) x entry point (_SocksMachine with buffered "
        "or callback output, TorSocksEndpoint.connect, socks.resolve, socks.resolve_ptr, _TorSocksFactory protocol) x server "
        "method reply (select 0 whole / byte-wise, or refuse: method 1, 2, 0xFF, wrong version) x final reply. Distinct = hash "
        "of that tuple. Non-trivial = the greeting was observed on the wire and decoded by the reference parser.")
ASSUMPTIONS = [
    "a hostname is any ASCII string (0x21..0x7e) of 1..255 bytes that Python's ipaddress module does not accept as an IP literal; it must be sent byte-identical as ATYP 3",
    "IP literals: strict dotted quads and RFC 4291 text forms (rendered by the reference from the packed bytes)",
    "an IPv6 literal with an RFC 4007 zone id ('fe80::1%eth0') has no ATYP 4 encoding: it must be refused with an error, or carried verbatim as a DOMAINNAME; a request for the address without its zone is a different target",
    "host names are compared byte for byte, also .onion names (no case folding / normalisation is allowed to change what is sent); a non-ASCII name stays un-encodable even if lower()/upper()/casefold()/NFKC would map it to ASCII (U+212A, U+017F, fullwidth letters ...)",
    "one _SocksMachine serves one connection attempt (its docstring: 'a SOCKS state machine to make a single request'; its one-shot when_done() has fired once the connection is lost; _TorSocksProtocol builds a fresh machine per connection and calls connection() once): re-connecting a machine that already lost its connection is not reachable through any entry point and is not driven",
    "delivery is never re-entrant: feed_data/dataReceived is not called from inside transport.write or a send_data drain callback (Twisted transports never do; the quantifier of C06 is over inputs only)",
    "CONNECT and RESOLVE_PTR of an IP literal must use ATYP 1 / 4 with the packed address; RESOLVE of an IP literal may also carry the literal text as ATYP 3 (Tor accepts both)",
    "the port of RESOLVE / RESOLVE_PTR is not an input of the public API: the PORT field may be 0 or the port handed to _SocksMachine",
    "RESOLVE_PTR of a hostname is outside the model (Tor rejects it): counted, only the greeting clauses are judged",
    "un-encodable = ASCII name longer than 255 bytes or any non-ASCII character; 'refused with an error' = an exception from the API call / dataReceived, or the returned Deferred failing by quiescence",
    "an exception escaping dataReceived drops the connection (connectionLost with that failure), as the Twisted reactor does",
    "TorSocksEndpoint(tls=True) and tls=<client options> are driven up to the first TLS bytes (what follows the success reply is the TLS layer's ClientHello, not SOCKS); with tls=True a name that optionsForClientTLS itself rejects is outside the model (counted); no TLS server is simulated",
    "a trailing root dot is part of the name the caller gave: it must be sent (or the name refused), never silently stripped",
    "ports outside 0..65535 and empty names are not generated",
]
TRUSTED_BASE = ["vf.refs.socks5 (RFC 1928 parser, IPv4/IPv6 text formatter; self-tested, cross-checked against ipaddress)",
                "vf.wire.RecTransport, fake IStreamClientEndpoint", "Twisted Protocol.makeConnection / inlineCallbacks"]
ANCHORS = [
    "txtorcon.socks:_create_ip_address",
    "txtorcon.socks:_SocksMachine._send_version",
    "txtorcon.socks:_SocksMachine._send_connect_request",
    "txtorcon.socks:_SocksMachine._send_resolve_request",
    "txtorcon.socks:_SocksMachine._send_resolve_ptr_request",
    "txtorcon.socks:TorSocksEndpoint.connect",
    "txtorcon.socks:resolve",
    "txtorcon.socks:resolve_ptr",
]
FLOORS = {
    "quick": {"evaluations": 4500, "greetings_decoded": 4500, "requests_decoded": 2900, "unencodable_judged": 400,
              "ports_distinct_shard_sum": 900, "checked_after_half_method_reply": 1000, "zoned_literals_judged": 250,
              "onion_names_judged": 80, "foldable_nonascii_judged": 200, "tls_entry_point_cases_judged": 40,
              "rooted_names_judged": 100,
              "reach:txtorcon.socks:_SocksMachine._send_connect_request": 2000,
              "reach:txtorcon.socks:_SocksMachine._send_resolve_request": 1500,
              "reach:txtorcon.socks:_SocksMachine._send_resolve_ptr_request": 700,
              "reach:txtorcon.socks:TorSocksEndpoint.connect": 700},
    "thorough": {"evaluations": 90000, "greetings_decoded": 90000, "requests_decoded": 60000,
                 "unencodable_judged": 4000, "ports_distinct_shard_sum": 65536, "checked_after_half_method_reply": 14000,
                 "zoned_literals_judged": 900, "onion_names_judged": 150, "foldable_nonascii_judged": 1700,
                 "tls_entry_point_cases_judged": 400, "rooted_names_judged": 1200,
                 "reach:txtorcon.socks:_SocksMachine._send_connect_request": 39000,
                 "reach:txtorcon.socks:_SocksMachine._send_resolve_request": 30000,
                 "reach:txtorcon.socks:_SocksMachine._send_resolve_ptr_request": 17000,
                 "reach:txtorcon.socks:TorSocksEndpoint.connect": 11000},
}

GREETING = b"\x05\x01\x00"
LDH = "abcdefghijklmnopqrstuvwxyzABCDEFGHIJKLMNOPQRSTUVWXYZ0123456789"
PRINTABLE = "".join(chr(c) for c in range(0x21, 0x7f))
NONASCII_SAMPLES = [
    "bücher.example", "é", "café", "π", "пример.рф",
    "例え.jp", "xn--ä", "a b", "\U0001f600.onion", "naïve.example.com", "ÿ" * 10,
    "１.２.３.４", "a" * 200 + "é", "é" * 127, "é" * 128, "é" * 255,
    "€" * 85, "€" * 86, "a" * 254 + "é", "İstanbul", "straße.de", "exаmple.com",
]
# non-ASCII characters whose lower() / upper() / casefold() / NFKC image is (or contains only) ASCII: a client that
# normalises before encoding would turn such a name into a *different*, encodable one
FOLDABLE_CHARS = ["\u212a", "\u017f", "\u0130", "\u0131", "\uff4b", "\uff2f", "\uff0e", "\ufb01", "\u00df", "\u2170", "\u00aa",
                  "\u2024", "\u1e9e", "\U0001d5ba", "\u2102", "\u24de"]
ONION_SUFFIXES = [".onion", ".ONION", ".Onion", ".oNiOn", ".onioN"]
B32 = "abcdefghijklmnopqrstuvwxyz234567"


def onion_body(rnd, case):
    n = rnd.choice([16, 56, 56, rnd.randint(1, 60)])
    body = "".join(rnd.choice(B32) for _ in range(n))
    if case == "upper":
        body = body.upper()
    elif case == "mixed":
        body = "".join(c.upper() if rnd.random() < 0.5 else c for c in body) + "Q"
    if rnd.random() < 0.3:
        body = rnd.choice(["www", "WWW", "Sub.Dom", "a"]) + "." + body
    return body


def onion_and_foldable_names(rnd, n):
    """-> [(kind, host)]: ASCII .onion names in every letter case (encodable: must go out byte-identical) and
    non-ASCII names that case mapping / NFKC would turn into ASCII (un-encodable: must be refused), with and without
    an .onion suffix"""
    out = []
    for k in range(n):
        for case in ("lower", "upper", "mixed"):
            out.append(("onion", onion_body(rnd, case) + ONION_SUFFIXES[(k + len(out)) % len(ONION_SUFFIXES)]))
    for ch in FOLDABLE_CHARS:
        for suffix in ONION_SUFFIXES[:3] + [".example", ".COM", ""]:
            body = onion_body(rnd, rnd.choice(["lower", "mixed"])) if "nion" in suffix.lower() else ldh_name(rnd, rnd.choice([3, 9, 30]))
            pos = rnd.randrange(len(body) + 1)
            out.append(("foldable", body[:pos] + ch + body[pos:] + suffix))
        # the special character inside the suffix itself
        out.append(("foldable", onion_body(rnd, "lower") + ".on" + ch + "on"))
        out.append(("foldable", onion_body(rnd, "mixed") + "." + ch + "nion"))
        out.append(("foldable", ch))
    out.append(("foldable", "\u212a" * 16 + ".onion"))
    out.append(("foldable", "expyuzz4wqqyqhjn\uff0eonion"))
    return [(k, h) for (k, h) in out if not h.isascii() or k == "onion"]


BOUNDARY_PORTS = sorted(set(
    [0, 1, 2, 21, 22, 79, 80, 127, 128, 254, 255, 256, 257, 443, 511, 512, 1023, 1024, 1025, 4660, 8080, 8443, 9050,
     9150, 13398, 32767, 32768, 32769, 43981, 48879, 65279, 65280, 65281, 65533, 65534, 65535]
    + [1 << i for i in range(16)] + [(1 << i) - 1 for i in range(1, 17)]))
V4_BOUNDARY = ["00000000", "ffffffff", "7f000001", "01020304", "0a000001", "c0a80001", "00000001", "01000000",
               "ff000000", "00ff00ff", "fffffffe", "80000000", "7fffffff", "e0000001", "a9fe0101", "08080808"]
V6_BOUNDARY = [
    "00000000000000000000000000000000", "00000000000000000000000000000001", "ffffffffffffffffffffffffffffffff",
    "20010db8000000000000000000000001", "20010db8000000010001000100010001", "20010db8000000000001000000000001",
    "fe800000000000000000000000000000", "fe80000000000000a2999bfffe0e4471", "00000000000000000000ffff01020304",
    "0000000000000000000000007f000001", "20024493510500000000a2999bfffe0e", "0064ff9b0000000000000000c0000201",
    "000100000000000000000000000a0000", "00010002000300040005000600070008", "0000000100000000000000000000ffff",
    "80000000000000000000000000000000", "0000ffff000000000000000000000000", "fd000000000000000000000000000000",
    "ff020000000000000000000000000001", "00000000000000010000000000000000", "0123456789abcdef0123456789abcdef",
]
V6_STYLES = ["canonical", "full", "padded", "upper", "dotted", "altzero"]
ZONES = ["eth0", "2", "wlan0", "lo", "0", "en0.100", "Ethernet_2", "z" * 15]
V6_ZONED_BASES = ["fe800000000000000000000000000001", "ff0200000000000000000000000000fb",
                  "fe80000000000000a2999bfffe0e4471", "00000000000000000000000000000001",
                  "ff020000000000000000000000000001", "fe80000000000000ffffffffffffffff"]
METHOD_REPLIES = {"ok": (5, 0), "m1": (5, 1), "m2": (5, 2), "mff": (5, 0xFF), "v4": (4, 0), "v0": (0, 0)}


# ---------------------------------------------------------------------------
# target generation (pure functions of rnd)

def ldh_name(rnd, n, single_label=False):
    """a host name of exactly n bytes made of letters/digits/hyphen labels (labels <= 63 unless single_label)"""
    if single_label or n < 4:
        s = "".join(rnd.choice(LDH) for _ in range(n))
        return s
    out = []
    left = n
    while left > 0:
        if left <= 3:
            ln = left
        else:
            ln = min(left, rnd.choice([1, 2, 3, 5, 8, 13, 30, 62, 63]))
            if left - ln == 1:      # would leave room for a dot only
                ln -= 1
            if ln < 1:
                ln = left
        lab = [rnd.choice(LDH) for _ in range(ln)]
        if ln >= 3 and rnd.random() < 0.3:
            lab[rnd.randrange(1, ln - 1)] = "-"
        out.append("".join(lab))
        left -= ln
        if left > 0:
            left -= 1             # the dot
            if left == 0:         # a trailing dot would change the length accounting: extend the label
                out[-1] += rnd.choice(LDH)
    s = ".".join(out)
    if len(s) != n:               # construction slack: pad / trim with letters
        s = (s + "".join(rnd.choice(LDH) for _ in range(n)))[:n]
        if s.endswith("."):
            s = s[:-1] + "x"
    return s


def printable_name(rnd, n):
    return "".join(rnd.choice(PRINTABLE) for _ in range(n))


def is_ip_literal(text):
    try:
        ipaddress.ip_address(text)
        return True
    except ValueError:
        return False


def v6_patterns(rnd):
    r = rnd.random()
    if r < 0.25:
        return bytes(rnd.randrange(256) for _ in range(16))
    if r < 0.6:
        return bytes(rnd.choice([0, 0, 0, rnd.randrange(256), 0xFF]) for _ in range(16))
    if r < 0.7:
        return b"\x00" * 10 + b"\xff\xff" + bytes(rnd.randrange(256) for _ in range(4))
    if r < 0.8:
        return bytes(rnd.randrange(256) for _ in range(rnd.randrange(1, 9))).ljust(16, b"\x00")
    if r < 0.9:
        return bytes(rnd.randrange(256) for _ in range(rnd.randrange(1, 9))).rjust(16, b"\x00")
    g = [rnd.choice([0, 0, rnd.randrange(65536)]) for _ in range(8)]
    return b"".join(bytes([x >> 8, x & 255]) for x in g)


def kind_class(kind):
    return {"ldh": "ldh-name", "label": "ldh-name", "printable": "printable-name", "ipv4": "ipv4-literal",
            "ipv6": "ipv6-literal", "ipv6zone": "ipv6-zoned-literal", "overlong": "overlong-name",
            "nonascii": "non-ascii-name", "foldable": "non-ascii-name-with-ascii-case-or-nfkc-image",
            "onion": "onion-name", "rooted": "absolute-name-trailing-dot"}[kind]


def input_class(case):
    """structural class of a case: request type + kind of target (+ how the method reply refused)"""
    return "%s+%s" % (case["req"].lower(), kind_class(case["kind"]))


def drives_for(req):
    if req == "CONNECT":
        return ["machine", "machine-ondata", "endpoint", "endpoint-deferred", "factory"]
    if req == "RESOLVE":
        return ["machine", "machine-ondata", "resolve", "factory"]
    return ["machine", "machine-ondata", "resolve_ptr", "factory"]


def mk(req, kind, host, port, drive, packed=None, m="ok", msplit=False, final="none", hostbytes=False):
    return {"req": req, "kind": kind, "host": host, "port": port, "drive": drive,
            "packed": packed, "m": m, "msplit": msplit, "final": final, "hostbytes": hostbytes}


# ---------------------------------------------------------------------------
# execution: the real code on doubles

class _Sink(object):
    def __init__(self):
        self.data = b""

    def dataReceived(self, d):
        self.data += d

    def connectionLost(self, reason):
        pass


class Observation(object):
    def __init__(self):
        self.errors = []        # (where, exception type name, text)
        self.phase = {}         # name -> bytes written so far
        self.outcome = None
        self.client_closed = False
        self.skip = None        # reason this case is outside the model (counted, not judged)


def execute(case):
    from twisted.internet import defer
    from twisted.internet.interfaces import IStreamClientEndpoint
    from twisted.internet.protocol import Factory, Protocol
    from twisted.python.failure import Failure
    from zope.interface import implementer
    from txtorcon import socks
    from ..audit import Auditor
    from ..wire import LClock, RecTransport

    obs = Observation()
    clock = LClock()
    aud = Auditor(clock)
    req, host, port, drive = case["req"], case["host"], case["port"], case["drive"]

    def err(where, e):
        obs.errors.append((where, type(e).__name__, str(e)[:120]))

    if drive in ("machine", "machine-ondata"):
        out = []
        dis = []
        kw = {}
        if drive == "machine-ondata":
            kw["on_data"] = out.append
        if req == "CONNECT":
            kw["create_connection"] = lambda a, p: _Sink()
        try:
            sm = socks._SocksMachine(req, host, port, on_disconnect=dis.append, **kw)
        except Exception as e:
            err("construct", e)
            obs.phase["A"] = b""
            return obs
        obs.outcome = aud.watch(sm.when_done(), "when_done")

        def written():
            if drive == "machine":
                sm.send_data(out.append)
            return b"".join(out)

        def deliver(data, where):
            if dis or obs.client_closed:
                obs.client_closed = True
                return
            try:
                sm.feed_data(data)
            except Exception as e:
                err(where, e)
                try:
                    sm.disconnected(socks.SocksError(str(e)))
                except Exception as e2:
                    err(where + "/disconnected", e2)
                obs.client_closed = True

        try:
            sm.connection()
        except Exception as e:
            err("connection", e)
    else:
        @implementer(IStreamClientEndpoint)
        class Proxy(object):
            def __init__(self):
                self.transport = RecTransport(clock)
                self.proto = None

            def connect(self, factory):
                try:
                    p = factory.buildProtocol(self.transport.getPeer())
                    self.proto = p
                    p.makeConnection(self.transport)
                except Exception:
                    return defer.fail(Failure())
                return defer.succeed(p)

        proxy = Proxy()
        target = host
        if case.get("hostbytes"):
            try:
                target = host.encode("utf8")
            except Exception:
                target = host
        try:
            if drive in ("endpoint-tls", "endpoint-tls-ctx"):
                from twisted.internet.ssl import optionsForClientTLS
                if drive == "endpoint-tls":
                    # tls=True builds optionsForClientTLS(host): a name the TLS layer itself cannot take
                    # (IDNA rules, labels > 63 ...) is legitimately refused before SOCKS is involved
                    try:
                        optionsForClientTLS(host)
                    except Exception as e:
                        obs.skip = "tls-options-unbuildable:" + type(e).__name__
                        obs.phase["A"] = b""
                        return obs
                    tls_arg = True
                else:
                    tls_arg = optionsForClientTLS("verif.example")
                d = socks.TorSocksEndpoint(proxy, target, port, tls=tls_arg).connect(Factory.forProtocol(Protocol))
            elif drive == "endpoint":
                d = socks.TorSocksEndpoint(proxy, target, port).connect(Factory.forProtocol(Protocol))
            elif drive == "endpoint-deferred":
                d = socks.TorSocksEndpoint(defer.succeed(proxy), target, port).connect(Factory.forProtocol(Protocol))
            elif drive == "resolve":
                d = socks.resolve(proxy, target)
            elif drive == "resolve_ptr":
                d = socks.resolve_ptr(proxy, target)
            elif drive == "factory":
                # what resolve()/TorSocksEndpoint build internally, driven as a bare protocol
                fac = socks._TorSocksFactory(host, port, req, Factory.forProtocol(Protocol) if req == "CONNECT" else None)
                d = proxy.connect(fac)
                d.addCallback(lambda p: p.when_done())
            else:
                raise RuntimeError("unknown drive " + drive)
            obs.outcome = aud.watch(d, drive)
        except Exception as e:
            err("call", e)
            obs.phase["A"] = proxy.transport.value()
            return obs

        def written():
            return proxy.transport.value()

        def deliver(data, where):
            p = proxy.proto
            if p is None or obs.client_closed:
                return
            if proxy.transport.disconnecting:
                # the client closed: a real transport stops reading and reports the loss
                obs.client_closed = True
                proxy.transport.lost = True
                try:
                    p.connectionLost(Failure(Exception("closed by client")))
                except Exception as e:
                    err(where + "/connectionLost", e)
                return
            try:
                p.dataReceived(data)
            except Exception as e:
                err(where, e)
                obs.client_closed = True
                proxy.transport.lost = True
                try:
                    p.connectionLost(Failure(e))
                except Exception as e2:
                    err(where + "/connectionLost", e2)

    obs.phase["A"] = written()
    ver, method = METHOD_REPLIES[case["m"]]
    mrep = S.encode_method_reply(method, ver=ver)
    if not obs.phase["A"]:
        return obs              # nothing written: a server has nothing to answer (causality)
    if case["msplit"]:
        deliver(mrep[:1], "method-reply[0]")
        obs.phase["B"] = written()
        deliver(mrep[1:], "method-reply[1]")
    else:
        deliver(mrep, "method-reply")
    obs.phase["C"] = written()
    if case["final"] != "none" and len(obs.phase["C"]) > len(obs.phase["A"]) and not obs.errors:
        if case["final"] == "success":
            if req == "RESOLVE_PTR":
                rep = S.encode_reply(0, S.ATYP_DOMAIN, b"ptr.example", 0)
            else:
                rep = S.encode_reply(0, S.ATYP_IPV4, "10.9.8.7", 0)
        else:
            rep = S.encode_reply(5, S.ATYP_IPV4, "0.0.0.0", 0)
        deliver(rep, "final-reply")
        obs.phase["D"] = written()
    return obs


# ---------------------------------------------------------------------------
# oracle

def judge(case, obs, rec):
    icls = input_class(case)
    bad = []

    def V(clause, detail, cls=None):
        if clause not in bad:
            bad.append(clause)
            detail = dict(detail)
            detail["errors"] = obs.errors[:3]
            rec.violation(clause, cls or icls, detail, case)

    req, kind = case["req"], case["kind"]
    unencodable = kind in ("overlong", "nonascii", "foldable")
    if kind == "foldable":
        rec.count("foldable_nonascii_judged")
    elif kind == "onion":
        rec.count("onion_names_judged")
    zoned = kind == "ipv6zone"
    out_of_model = (req == "RESOLVE_PTR" and kind not in ("ipv4", "ipv6", "ipv6zone"))
    failed = bool(obs.errors) or (obs.outcome is not None and obs.outcome.fired and not obs.outcome.ok)
    A = obs.phase.get("A", b"")
    if out_of_model:
        rec.count("out_of_model_ptr_of_a_name")
    if not A:
        # nothing was written at all: only an up-front refusal explains that
        if unencodable or out_of_model or zoned:
            rec.count("zoned_literals_judged" if zoned else "unencodable_judged")
            rec.count("refused_before_connecting")
            if not failed:
                V("unencodable-target-no-error", {"written": A})
            return bad, False
        if failed:
            V("encodable-target-refused", {"written": A, "stage": "before greeting"})
        else:
            V("greeting-missing", {"written": A})
        return bad, False
    # --- greeting: exactly 05 01 00, and nothing after it until the method is selected
    try:
        g, used = S.parse_greeting(A)
    except (S.Incomplete, S.Malformed) as e:
        V("greeting-malformed", {"written": A, "parser": str(e)}, cls=req.lower())
        return bad, False
    rec.count("greetings_decoded")
    if g["methods"] != [S.METHOD_NONE]:
        V("greeting-not-only-no-authentication", {"written": A, "methods": g["methods"]}, cls=req.lower())
    if used != len(A):
        V("request-before-method-selection", {"written": A, "after_greeting": A[used:]})
        return bad, True
    if "B" in obs.phase:
        rec.count("checked_after_half_method_reply")
        if obs.phase["B"] != A:
            V("request-before-method-selection", {"written": obs.phase["B"], "delivered": "first byte of method reply"})
            return bad, True
    C = obs.phase.get("C", A)
    R = C[len(A):]
    if not C.startswith(A):
        V("written-bytes-changed", {"A": A, "C": C})
        return bad, True
    if case["m"] != "ok":
        rec.count("method_refused_cases")
        if R:
            V("request-after-method-refused", {"method_reply": list(METHOD_REPLIES[case["m"]]), "request": R},
              cls="%s+method-reply-%s" % (req.lower(), case["m"]))
        return bad, True
    if out_of_model:
        return bad, True
    if unencodable:
        rec.count("unencodable_judged")
        if R:
            V("unencodable-target-sent", {"request": R[:80], "request_len": len(R)})
        elif not failed:
            V("unencodable-target-no-error", {"written": C})
        return bad, True
    if zoned:
        # SOCKS5 has no field for an RFC 4007 zone: the target is either refused, or carried verbatim as a
        # DOMAINNAME (which denotes exactly the text the caller gave) -- never as the address without its zone
        rec.count("zoned_literals_judged")
        if not R:
            if not failed:
                V("unencodable-target-no-error", {"written": C})
            return bad, True
        try:
            r, used = S.parse_request(R)
        except (S.Incomplete, S.Malformed) as e:
            V("zoned-target-sent-as-other-address", {"request": R[:60], "parser": str(e)})
            return bad, True
        rec.count("requests_decoded")
        if not (r["atyp"] == S.ATYP_DOMAIN and r["addr"] == case["host"].encode("ascii") and used == len(R)
                and r["ver"] == 5 and r["rsv"] == 0 and r["cmd"] == S.CMD_NAMES[req]
                and (r["port"] == case["port"] or (req != "CONNECT" and r["port"] == 0))):
            V("zoned-target-sent-as-other-address", {"request": R[:60], "atyp": r["atyp"], "addr_sent": r["addr"][:40],
                                                    "target": case["host"]})
        else:
            rec.count("zoned_literal_sent_verbatim_as_name")
        return bad, True
    # --- encodable target: exactly one well-formed request
    if not R:
        if failed:
            V("encodable-target-refused", {"written": C, "stage": "request"})
        else:
            V("request-missing", {"written": C})
        return bad, True
    try:
        r, used = S.parse_request(R)
    except S.Incomplete as e:
        V("request-address-length", {"request": R, "parser": str(e)})
        return bad, True
    except S.Malformed as e:
        V("request-address-type", {"request": R, "parser": str(e)})
        return bad, True
    rec.count("requests_decoded")
    rec.seen("requests_on_wire", "%s: cmd=%02x atyp=%d" % (icls, r["cmd"], r["atyp"]))
    if used != len(R):
        V("request-trailing-bytes", {"request": R[:used], "trailing": R[used:used + 40]})
    if r["ver"] != 5:
        V("request-version", {"request": R[:40], "ver": r["ver"]})
    if r["rsv"] != 0:
        V("request-reserved", {"request": R[:40], "rsv": r["rsv"]})
    if r["cmd"] != S.CMD_NAMES[req]:
        V("request-command", {"request": R[:40], "cmd": r["cmd"], "want": S.CMD_NAMES[req]})
    # address
    host = case["host"]
    if kind in ("ipv4", "ipv6"):
        want_atyp = S.ATYP_IPV4 if kind == "ipv4" else S.ATYP_IPV6
        packed = case["packed"]
        as_literal_name = (req == "RESOLVE" and r["atyp"] == S.ATYP_DOMAIN)
        if as_literal_name:
            rec.count("resolve_of_literal_sent_as_name")
            if r["addr"] != host.encode("ascii"):
                V("request-address", {"request": R[:60], "want_name": host})
        elif r["atyp"] != want_atyp:
            V("request-address-type", {"request": R[:60], "atyp": r["atyp"], "want": want_atyp})
        elif r["addr"] != packed:
            V("request-address", {"request": R[:60], "addr": r["addr"], "want": packed})
    else:
        if r["atyp"] != S.ATYP_DOMAIN:
            V("request-address-type", {"request": R[:60], "atyp": r["atyp"], "want": S.ATYP_DOMAIN})
        elif r["addr"] != host.encode("ascii"):
            V("request-address", {"request_len": len(R), "name_sent": r["addr"][:80], "name_sent_len": len(r["addr"]),
                                  "want_len": len(host)})
    # port
    if req == "CONNECT":
        if r["port"] != case["port"]:
            V("request-port", {"request_tail": R[-6:], "port": r["port"], "want": case["port"]})
    else:
        if r["port"] not in (0, case["port"]):
            V("request-port", {"request_tail": R[-6:], "port": r["port"], "want": [0, case["port"]]})
    if "D" in obs.phase and case["drive"].startswith("endpoint-tls"):
        # after the success reply the TLS layer speaks (ClientHello): application-level bytes, not SOCKS
        if len(obs.phase["D"]) > len(C):
            rec.count("tls_client_hello_seen_after_success")
    elif "D" in obs.phase:
        rec.count("checked_after_final_reply")
        if obs.phase["D"] != C:
            V("extra-bytes-after-request", {"extra": obs.phase["D"][len(C):][:60], "final": case["final"]})
    return bad, True


PORTS_SEEN = set()


def run_case(case, rec):
    obs = execute(case)
    if obs.skip:
        rec.count("out_of_model_" + obs.skip.split(":")[0])
        rec.seen("out_of_model_reasons", obs.skip)
        rec.case(case, nontrivial=False)
        return []
    if case["drive"].startswith("endpoint-tls"):
        rec.count("tls_entry_point_cases_judged")
    if case["kind"] == "rooted":
        rec.count("rooted_names_judged")
    bad, nontrivial = judge(case, obs, rec)
    rec.case(case, nontrivial=nontrivial)
    if obs.errors:
        rec.count("cases_with_exception")
        rec.seen("exception_sites", "%s:%s:%s" % (input_class(case), obs.errors[0][0], obs.errors[0][1]))
    if obs.outcome is not None and obs.outcome.fired:
        rec.count("deferred_outcomes_seen")
    if case["port"] not in PORTS_SEEN:
        PORTS_SEEN.add(case["port"])
        rec.count("ports_distinct_shard_sum")
    return bad


# ---------------------------------------------------------------------------
# shards

def _fix_reach():
    """vf.reach resolves anchors with getattr(), which automat refuses for output methods;
    register their code objects here (wish: reach._resolve should look through .method)"""
    import sys
    from .. import reach
    from txtorcon import socks
    for name in ANCHORS:
        modname, qual = name.split(":")
        parts = qual.split(".")
        if len(parts) != 2 or parts[0] != "_SocksMachine":
            continue
        raw = socks._SocksMachine.__dict__.get(parts[1])
        fn = getattr(raw, "method", raw)
        code = getattr(fn, "__code__", None)
        if code is None:
            continue
        for k in [k for k in reach._counts if k.startswith(name + " (unresolved")]:
            del reach._counts[k]
        if code not in reach._code_names:
            reach._code_names[code] = name
            reach._counts.setdefault(name, 0)
            sys.monitoring.set_local_events(reach._TOOL, code, sys.monitoring.events.PY_START)


def _rot(seq, i):
    return seq[i % len(seq)]


def cases_names(spec):
    """every name length lo..hi (step/offset split over shards), LDH, single label and printable"""
    out = []
    i = 0
    for n in range(spec["lo"], spec["hi"] + 1):
        if n % spec["mod"] != spec["rem"]:
            continue
        for kind in ("ldh", "label", "printable"):
            rnd = gen.rnd_for(spec["seed"], "C06names", n, kind)
            if kind == "ldh":
                host = ldh_name(rnd, n)
            elif kind == "label":
                host = ldh_name(rnd, n, single_label=True)
            else:
                host = printable_name(rnd, n)
            if is_ip_literal(host) or (n <= 255 and not host.isascii()):
                continue
            k = kind if n <= 255 else "overlong"
            for req in ("CONNECT", "RESOLVE"):
                for drive in drives_for(req):
                    i += 1
                    port = _rot(BOUNDARY_PORTS, i) if req == "CONNECT" else 0
                    out.append(mk(req, k, host, port, drive, msplit=(i % 3 == 0),
                                  final=_rot(["none", "success", "refused"], i),
                                  hostbytes=(drive not in ("machine", "machine-ondata", "factory") and i % 4 == 0)))
    return out


def cases_literals(spec):
    out = []
    i = 0
    rnd = gen.rnd_for(spec["seed"], "C06lit", spec["shard"])
    v4 = [bytes.fromhex(h) for h in V4_BOUNDARY] + [bytes(rnd.randrange(256) for _ in range(4)) for _ in range(spec["n4"])]
    v6 = [bytes.fromhex(h) for h in V6_BOUNDARY] + [v6_patterns(rnd) for _ in range(spec["n6"])]
    for b in v4:
        host = S.ipv4_text(b)
        for req in ("CONNECT", "RESOLVE", "RESOLVE_PTR"):
            for drive in drives_for(req):
                i += 1
                port = _rot(BOUNDARY_PORTS, i) if req == "CONNECT" else 0
                out.append(mk(req, "ipv4", host, port, drive, packed=b, msplit=(i % 3 == 0),
                              final=_rot(["none", "success", "refused"], i),
                              hostbytes=(drive not in ("machine", "machine-ondata", "factory") and i % 4 == 0)))
    for j, b in enumerate(v6):
        styles = V6_STYLES if j < len(V6_BOUNDARY) else [_rot(V6_STYLES, j), rnd.choice(V6_STYLES)]
        for style in sorted(set(styles)):
            host = S.ipv6_text(b, style)
            for req in ("CONNECT", "RESOLVE", "RESOLVE_PTR"):
                for drive in drives_for(req):
                    i += 1
                    if j >= len(V6_BOUNDARY) and i % 2:
                        continue
                    port = _rot(BOUNDARY_PORTS, i) if req == "CONNECT" else 0
                    out.append(mk(req, "ipv6", host, port, drive, packed=b, msplit=(i % 3 == 0),
                                  final=_rot(["none", "success", "refused"], i),
                                  hostbytes=(drive not in ("machine", "machine-ondata", "factory") and i % 4 == 0)))
    # IPv6 literals with an RFC 4007 zone id: not expressible as ATYP 4
    zb = [bytes.fromhex(h) for h in V6_ZONED_BASES] + [b"\xfe\x80" + bytes(6) + bytes(rnd.randrange(256) for _ in range(8))
                                                        for _ in range(spec.get("nz", 6))]
    for j, b in enumerate(zb):
        for zone in ZONES:
            host = S.ipv6_text(b, _rot(["canonical", "full", "upper", "padded"], i + j)) + "%" + zone
            for req in ("CONNECT", "RESOLVE", "RESOLVE_PTR"):
                for drive in drives_for(req):
                    i += 1
                    port = _rot(BOUNDARY_PORTS, i) if req == "CONNECT" else 0
                    out.append(mk(req, "ipv6zone", host, port, drive, packed=b, msplit=(i % 3 == 0),
                                  final=_rot(["none", "success", "refused"], i),
                                  hostbytes=(drive not in ("machine", "machine-ondata", "factory") and i % 4 == 0)))
    return out


def _targets(rnd):
    """one name, one IPv4 literal, one IPv6 literal"""
    b4 = bytes(rnd.randrange(256) for _ in range(4))
    b6 = v6_patterns(rnd)
    return [("ldh", ldh_name(rnd, rnd.choice([1, 5, 9, 14, 63, 64, 65, 200, 255, rnd.randint(1, 255)])), None),
            ("ipv4", S.ipv4_text(b4), b4),
            ("ipv6", S.ipv6_text(b6, rnd.choice(V6_STYLES)), b6)]


def cases_ports(spec):
    """ports: an explicit list / range, each with {name, IPv4, IPv6} x request types"""
    out = []
    ports = spec.get("ports")
    if ports is None:
        ports = range(spec["plo"], spec["phi"] + 1)
    for i, port in enumerate(ports):
        rnd = gen.rnd_for(spec["seed"], "C06ports", port)
        tg = _targets(rnd)
        for (kind, host, packed) in tg:
            out.append(mk("CONNECT", kind, host, port, "machine" if port % 2 else "machine-ondata", packed=packed))
        kind, host, packed = tg[port % 3]
        out.append(mk("CONNECT", kind, host, port, _rot(["endpoint", "endpoint-deferred", "factory"], port // 3),
                      packed=packed, msplit=(port % 5 == 0), final=_rot(["none", "success", "refused"], port)))
        if spec.get("resolve_ports", True):
            for (kind, host, packed) in tg:
                out.append(mk("RESOLVE", kind, host, port, "machine", packed=packed))
                if kind != "ldh":
                    out.append(mk("RESOLVE_PTR", kind, host, port, "machine", packed=packed))
    return out


def cases_hostile(spec):
    """un-encodable targets, refused methods, RESOLVE_PTR of names"""
    out = []
    rnd = gen.rnd_for(spec["seed"], "C06hostile", spec["shard"])
    i = 0
    names = list(NONASCII_SAMPLES)
    for _ in range(spec["n"]):
        n = rnd.choice([1, 2, 10, 100, 127, 128, 200, 254, 255, rnd.randint(1, 255)])
        base = list(ldh_name(rnd, n))
        for _ in range(rnd.choice([1, 1, 2, n])):
            base[rnd.randrange(n)] = rnd.choice("\u00e9\u00fc\u00df\u0101\u03bb\u0434\u4e2d\U0001f600\u00ad\u200b\u00a0")
        names.append("".join(base))
    for host in names:
        for req in ("CONNECT", "RESOLVE"):
            for drive in drives_for(req):
                i += 1
                out.append(mk(req, "nonascii", host, 443 if req == "CONNECT" else 0, drive, msplit=(i % 3 == 0),
                              hostbytes=(drive not in ("machine", "machine-ondata", "factory") and i % 3 == 0)))
    # .onion names in every case, and non-ASCII names with an ASCII case-mapping / NFKC image
    for (kind, host) in onion_and_foldable_names(rnd, spec.get("n_onion", 12)):
        for req in ("CONNECT", "RESOLVE"):
            for drive in drives_for(req):
                i += 1
                out.append(mk(req, kind, host, _rot(BOUNDARY_PORTS, i) if req == "CONNECT" else 0, drive,
                              msplit=(i % 3 == 0), final=_rot(["none", "success", "refused"], i),
                              hostbytes=(drive not in ("machine", "machine-ondata", "factory") and i % 5 == 0)))
    # refused / wrong method replies for every request type and target kind
    for m in ("m1", "m2", "mff", "v4", "v0"):
        for msplit in (False, True):
            for req in ("CONNECT", "RESOLVE", "RESOLVE_PTR"):
                for (kind, host, packed) in _targets(rnd):
                    if req == "RESOLVE_PTR" and kind == "ldh":
                        continue
                    for drive in drives_for(req):
                        out.append(mk(req, kind, host, 443 if req == "CONNECT" else 0, drive, packed=packed, m=m,
                                      msplit=msplit))
    # RESOLVE_PTR of a name: outside the model, greeting clauses only
    for n in (1, 9, 255, 256):
        for drive in drives_for("RESOLVE_PTR"):
            out.append(mk("RESOLVE_PTR", "ldh" if n < 256 else "overlong", ldh_name(rnd, n), 0, drive))
    out.extend(cases_tls(spec, rnd))
    return out


def strict_hostname(rnd, labels=None):
    """a host name every layer accepts: letter/digit labels (hyphen inside), 1..63 bytes each"""
    out = []
    for _ in range(labels or rnd.choice([1, 2, 2, 3, 4])):
        n = rnd.choice([1, 2, 3, 7, 12, 63])
        lab = [rnd.choice("abcdefghijklmnopqrstuvwxyz0123456789") for _ in range(n)]
        if n >= 3 and rnd.random() < 0.3:
            lab[rnd.randrange(1, n - 1)] = "-"
        if lab[0].isdigit() and rnd.random() < 0.7:
            lab[0] = "x"
        out.append("".join(lab))
    return ".".join(out)


def cases_tls(spec, rnd):
    """absolute names (trailing root dot) through every entry point, and TorSocksEndpoint(tls=True / tls=<options>):
    the TLS wrapping must not change what is asked of the SOCKS server"""
    out = []
    i = 0
    names = []
    for _ in range(spec.get("n_tls", 25)):
        base = strict_hostname(rnd)
        names += [("ldh", base), ("rooted", base + "."), ("rooted", base.upper() + ".") if rnd.random() < 0.3 else ("ldh", base.title())]
        ob = onion_body(rnd, "lower")
        names += [("onion", ob + ".onion"), ("rooted", ob + ".onion."), ("rooted", strict_hostname(rnd, 1) + ".")]
    names += [("rooted", "example.com."), ("rooted", "a."), ("rooted", "x" * 63 + "." + "y" * 63 + "."),
              ("nonascii", "b\u00fccher.example"), ("nonascii", "b\u00fccher.example."), ("foldable", "\u212aelvin.example."),
              ("nonascii", "\u4f8b\u3048.jp")]
    for (kind, host) in names:
        if is_ip_literal(host):
            continue
        for drive in ["endpoint-tls", "endpoint-tls-ctx"] + (drives_for("CONNECT") if kind == "rooted" else []):
            i += 1
            out.append(mk("CONNECT", kind, host, _rot(BOUNDARY_PORTS, i), drive, msplit=(i % 3 == 0),
                          final=_rot(["none", "success", "refused"], i),
                          hostbytes=(kind in ("ldh", "rooted", "onion") and i % 5 == 0)))
        if kind == "rooted":
            for drive in drives_for("RESOLVE"):
                i += 1
                out.append(mk("RESOLVE", kind, host, 0, drive, msplit=(i % 3 == 0)))
    for b4 in ("01020304", "7f000001", "ffffffff"):
        b = bytes.fromhex(b4)
        for drive in ("endpoint-tls", "endpoint-tls-ctx"):
            out.append(mk("CONNECT", "ipv4", S.ipv4_text(b), 443, drive, packed=b))
    return out


def cases_random(spec):
    out = []
    for i in range(spec["n"]):
        rnd = gen.rnd_for(spec["seed"], "C06", spec["shard"], i)
        r = rnd.random()
        if r < 0.05:
            kind, host = rnd.choice(onion_and_foldable_names(rnd, 1))
            packed = None
        elif r < 0.45:
            n = rnd.randint(1, 255)
            kind = rnd.choice(["ldh", "label", "printable"])
            host = ldh_name(rnd, n, kind == "label") if kind != "printable" else printable_name(rnd, n)
            packed = None
            if is_ip_literal(host):
                continue
        elif r < 0.6:
            packed = bytes(rnd.randrange(256) for _ in range(4))
            kind, host = "ipv4", S.ipv4_text(packed)
        elif r < 0.85:
            packed = v6_patterns(rnd)
            kind, host = "ipv6", S.ipv6_text(packed, rnd.choice(V6_STYLES))
        elif r < 0.88:
            packed = b"\xfe\x80" + bytes(6) + bytes(rnd.randrange(256) for _ in range(8))
            kind, host = "ipv6zone", S.ipv6_text(packed, rnd.choice(["canonical", "full", "upper"])) + "%" + rnd.choice(ZONES)
        elif r < 0.94:
            kind, host, packed = "overlong", ldh_name(rnd, rnd.randint(256, 300), rnd.random() < 0.5), None
        else:
            kind, packed = "nonascii", None
            host = rnd.choice(NONASCII_SAMPLES)
        req = rnd.choice(["CONNECT", "CONNECT", "RESOLVE", "RESOLVE_PTR"])
        if req == "RESOLVE_PTR" and kind not in ("ipv4", "ipv6", "ipv6zone"):
            req = "RESOLVE"
        drive = rnd.choice(drives_for(req))
        port = rnd.choice([rnd.randrange(65536), rnd.randrange(65536), rnd.choice(BOUNDARY_PORTS)])
        if req != "CONNECT" and drive not in ("machine", "machine-ondata"):
            port = 0
        out.append(mk(req, kind, host, port, drive, packed=packed, m=rnd.choice(["ok"] * 8 + ["m1", "m2", "mff", "v4"]),
                      msplit=rnd.random() < 0.4, final=rnd.choice(["none", "success", "refused"]),
                      hostbytes=(drive not in ("machine", "machine-ondata", "factory") and rnd.random() < 0.25)))
    return out


MODES = {"names": cases_names, "literals": cases_literals, "ports": cases_ports, "hostile": cases_hostile,
         "random": cases_random}


def run_shard(spec, rec):
    _fix_reach()
    cases = MODES[spec["mode"]](spec)
    for i, case in enumerate(cases):
        run_case(case, rec)
        if i % 997 == 0:
            rec.sample(case)
    if spec["mode"] == "names":
        rec.enumerated("hostname lengths %d..%d (LDH, single-label and printable-ASCII) x CONNECT/RESOLVE x entry points"
                       % (spec["lo"], spec["hi"]))
    if spec["mode"] == "ports" and spec.get("ports") is None:
        rec.enumerated("all ports 0..65535 x {name, IPv4, IPv6} x CONNECT (machine) + one entry-point run per port "
                       "+ RESOLVE/RESOLVE_PTR (machine)")
    for k in sorted(set(c["drive"] for c in cases)):
        rec.seen("entry_points", k)


def replay(case, rec):
    _fix_reach()
    run_case(case, rec)


def plan(tier, seed):
    specs = []
    rnd = gen.rnd_for(seed, "C06plan")
    if tier == "quick":
        for rem in range(4):
            specs.append({"mode": "names", "lo": 1, "hi": 300, "mod": 4, "rem": rem})
        specs.append({"mode": "literals", "n4": 40, "n6": 60})
        specs.append({"mode": "literals", "n4": 40, "n6": 60})
        rp = [rnd.randrange(65536) for _ in range(2000)]
        allp = BOUNDARY_PORTS + rp
        for k in range(4):
            specs.append({"mode": "ports", "ports": allp[k::4]})
        specs.append({"mode": "hostile", "n": 60})
        specs.append({"mode": "hostile", "n": 60})
        for k in range(4):
            specs.append({"mode": "random", "n": 3500})
    else:
        for rem in range(4):
            specs.append({"mode": "names", "lo": 1, "hi": 300, "mod": 4, "rem": rem})
        for k in range(4):
            specs.append({"mode": "literals", "n4": 400, "n6": 1500, "timeout_s": 3000})
        step = 2048
        for lo in range(0, 65536, step):
            specs.append({"mode": "ports", "plo": lo, "phi": lo + step - 1, "timeout_s": 3000})
        for k in range(4):
            specs.append({"mode": "hostile", "n": 400, "n_tls": 120, "timeout_s": 3000})
        for k in range(8):
            specs.append({"mode": "random", "n": 30000, "timeout_s": 3000})
    return specs
