"""C17 - onion listen(): loopback listener, exact port mapping, no leak on failure.

Monitor: the real TCPHiddenServiceEndpoint (built by its constructor, by the Tor.create_*_endpoint
methods and by Twisted's serverFromString("onion:...") -> TCPHiddenServiceEndpointParser ->
system_tor / global_tor), over the real TorConfig + TorControlProtocol, on harness-owned doubles:
vf.fakereactor.FakeReactor (listenTCP with tracked ports, connectTCP/connectUNIX resolved by the
harness, virtual clock, shutdown triggers) and vf.faketor.oniontor.OnionTor (reference Tor:
ADD_ONION, HiddenService* SETCONF that writes the service files, HS_DESC events only while
subscribed).  Observed: every listenTCP call (port, interface, outcome), every open/closed
listener, every command line Tor received (decoded by the independent ADD_ONION / kvline
parsers), the outcome of listen() and - at the moment it fires - what Tor had acknowledged and
which HS_DESC events had been sent.  One failure is injected per case at one step of listen().
Oracle: DESIGN.md section 2 / C17, written from the statement only.
"""
import os
import shutil
import tempfile

from .. import audit, gen, wire
from ..fakereactor import FakeReactor
from ..faketor import oniontor as OT
from ..faketor.core import Link
from ..refs import addonion as AO
from ..refs import kvline

PROPERTY = "C17"
READY = True
LEVEL = "fault_enumeration"
TECHNIQUE = ("runtime monitoring: listener / wire / Deferred recorders around the real TCPHiddenServiceEndpoint.listen() on a "
             "fake reactor and a reference Tor, complete enumeration of configuration cells x construction routes x "
             "fault points (one injected failure per execution, every command line of the dialogue as a disconnect point)")
LEVEL_TEXT = ("Held on the executions observed: every configuration cell (ephemeral/filesystem x auth x version x "
              "key x single-hop x directory kind) built through 7 construction routes, each run fault-free (four event "
              "schedules, two of them with another service's HS_DESC events inside the creation window, plus listen-again histories on the same endpoint object, one of them with a second endpoint object serving the same caller-chosen key in between) and once per fault point (configuration unavailable, bind refused, creating command rejected, all "
              "uploads failed, Tor hanging up instead of / right after answering the k-th command line for every k, loss "
              "before listen and between the descriptor events), plus the invalid option combinations the constructor and "
              "the endpoint-string parser declare. Enumeration of the stated cells and fault points with one fault per run, "
              "not a proof for other port numbers, paths, key material or multiple simultaneous faults.")
LEVEL_NOTE = ("Trusted: vf.fakereactor (listening-port bookkeeping), vf.faketor.oniontor (which requests Tor accepts, files it "
              "writes, HS_DESC only while subscribed), vf.refs.addonion / vf.refs.kvline (command decoders), vf.faketor.core.Link "
              "(causal delivery), Twisted's serverFromString argument parsing and TCP4ServerEndpoint. Launching a Tor process "
              "(first global_tor() call, private_tor) is not driven.")
RULE = ("a case = configuration cell x route x fault. cell: ephemeral {auth none/basic(1)/basic(2, one token)} x version "
        "{None,2,3,4} x key {none, type-prefixed, bare, wrong type for the version} x single-hop {no, yes on a non-anonymous Tor, "
        "yes on an anonymous Tor (refused by Tor)} | filesystem {auth none/basic(1,2)/stealth(1,2)} x version {None,2,3} x directory "
        "{existing, not yet existing, implicit temporary} x group-readable; public/local/first-free port varied per cell. route: "
        "constructor with a bootstrapped TorConfig / with a Deferred fired after listen() / with a TorConfig still bootstrapping, "
        "Tor.create_*_endpoint with and without a cached config, 'onion:' string with controlPort= (TCP or unix; real "
        "txtorcon.connect over the fake reactor's connectTCP/connectUNIX) and without (global Tor seeded through the _tor_launcher "
        "hook). fault: see LEVEL_TEXT; fault-free schedules: plain, own events while the creating reply is withheld, foreign-service events (succeeding / all failing) while the creating reply is withheld and the own hostname is still unknown. relisten histories: after-stop, without-stop, after-stop-port-taken, after-service-removed, after-removal-key-reused-elsewhere (other endpoint listening / its port stopped), after a failed first listen. Distinct = hash of (cell, route, fault, schedule, chunking). Non-trivial = listen() was "
        "called and at least one oracle clause beyond 'nothing happened' was evaluated (a listener was opened or refused, or "
        "a refusal before start was checked).")
ASSUMPTIONS = [
    "one injected fault per execution; faults after listen() has fired are outside the property (the run is then judged as a success run)",
    "loopback = 127.0.0.0/8 or ::1; the Target sent to Tor must be <that interface>:<bound port> (127.0.0.1 in practice)",
    "the local_port= argument is a wish, not an obligation: the property only demands that Tor forwards to the port really bound",
    "'listen fails with that error': the failure is the error itself, never an aggregate that wraps it (twisted's FirstError and the like): the injected "
    "exception object/class for an unavailable config, CannotListenError for the bind, a TorProtocolError carrying Tor's status code when Tor "
    "refused the creating command, an error naming this service for 'all uploads failed', CancelledError (TimeoutError through addTimeout) when the "
    "caller cancelled; for a lost control connection any non-wrapping failure is accepted (the types seen are listed in the evidence)",
    "'all uploads failed' is announced with the REASON values Tor uses for a failed upload (UPLOAD_REJECTED, UNEXPECTED) and without the optional REASON "
    "field, also mixed over the directories; REASONs of failed FETCHES (NOT_FOUND, QUERY_*) are not generated for the own service",
    "route tor-lazy also runs with a SECOND (ephemeral, unauthenticated) endpoint made from the same Tor object before its configuration was fetched; its "
    "listen() is called before, right after, or while the first one's is waiting for the unanswered config fetch; nothing is injected there, so both must "
    "succeed, each judged on its own (service in Tor and own UPLOADED at firing, open loopback listener on the forwarded port, stop closes it); the twin's "
    "descriptor goes to a directory neither service uses otherwise",
    "listening ports close asynchronously (stopListening() returns an unfired Deferred, completed by the harness on the next reactor turn, as a real "
    "twisted Port does): a failing listen() must have no listener open at the very instant its Deferred fails, not only after the reactor was drained",
    "caller-side cancellation: listen()'s Deferred is cancelled right after the call, while the k-th command line is unanswered (every k), "
    "inside the descriptor wait, and by an addTimeout(600) expiring there: listen() must then fail (never succeed), exactly once, and leave no "
    "listener open; a creating command already queued in the control protocol may still go out afterwards - not judged",
    "a lost control connection while listen() is waiting for the descriptor is a failure of the descriptor wait (Tor drops a "
    "non-detached service with its control connection; no further HS_DESC can arrive): listen() must fail and release the port",
    "upload histories are chosen so that the C15 findings do not matter: every own UPLOAD precedes every own result, foreign "
    "events only name directories the own service does not use, await_all is never requested",
    "OWN HS_DESC events delivered while the creating command's reply is withheld (Tor does not do this) are judged on safety only",
    "FOREIGN HS_DESC events (another service of the same Tor, on directories of its own: UPLOAD x2 then UPLOADED, or UPLOAD x2 then FAILED x2) "
    "delivered while the creating command is unanswered are something Tor does: the own service has made no attempt then, so listen() may "
    "neither fire nor fail on them, nor fire when the reply arrives afterwards; for filesystem services the harness keeps <dir>/hostname "
    "out of sight during that window (Tor writes it while it processes the SETCONF it has not answered yet)",
    "invalid combinations: refusal = an exception from the constructor / serverFromString, or a failed listen(); in either case no "
    "listenTCP call, no ADD_ONION/SETCONF/RESETCONF line, and - when the refusal is an exception from serverFromString - no connectTCP/"
    "connectUNIX/spawnProcess call on the reactor before it (system_tor() opens the control connection, global_tor() without an existing "
    "global Tor launches one: for that route only the lookup of the tor binary is stubbed, the fake reactor records the spawn); "
    "configuration *reads* on an existing connection (Tor.get_config()) are not 'starting' anything",
    "a TorConfig made by the caller (routes ctor-lazy: protocol ready, config bootstrapping; ctor-raw: protocol not even connected when "
    "listen() is called) has its post_bootstrap tapped by the harness (result passed on untouched): when it fails before listen() fired, "
    "listen() must fail with that very error (same exception, or same type and text) and leave nothing open; faults there: Tor hangs up at / "
    "after every line, answers 552 to every single line (connection stays up), refuses the password",
    "filesystem cells 'symlink': hidden_service_dir is a symlink to a directory for which the config already holds a service (Tor's "
    "configuration had it when the config was read, or an earlier endpoint object created it): only 'fails at most once, does not hang, no "
    "listener left open, stopListening closes' is judged there - what listen() does with an already configured directory is outside the quantifier",
    "option values of the wrong type handed to the constructor (e.g. public_port='80') are outside what __init__ declares; not generated. "
    "version=4 through the constructor is refused only when the service is created: judged as a failing run (no leak), not as a refusal before start",
    "on the port of every successful listen() one IListeningPort history is run (stop | stop,stop | stop,start,stop | stop,start,stop,stop | "
    "stop,stop,start,stop,start,stop): after every stopListening() no listener of the endpoint may be open; what startListening() re-opens is "
    "only required to be loopback - whether it is the port number Tor forwards to is counted, not judged (on the fake reactor a restarted port keeps "
    "its number; a real Twisted port bound with port 0 would get a new one); the value stopListening() returns is not judged",
    "for stealth authentication with more than one client there is no single hostname: onion_uri is not judged there (onion_port is)",
    "Twisted plugin discovery (twisted/plugins/txtorcon_endpoint_parser.py + dropin.cache) is replaced by handing serverFromString the "
    "parser object that plugin file creates (txtorcon.TCPHiddenServiceEndpointParser()); the string parsing itself is Twisted's",
    "routes NOT covered: the first global_tor() call and private_tor() launch a Tor process (txtorcon.launch needs a tor binary); "
    "'onion:' strings without controlPort are driven only against an already existing global Tor (seeded through get_global_tor_instance(_tor_launcher=...))",
    "histories on ONE endpoint object (fault-free: listen, stop the port, listen again; listen twice without stopping; after a failed first "
    "listen() - creating command rejected / all uploads failed / bind refused - listen again with the fault gone): every successful listen() "
    "must have an open loopback listener behind it, on the port Tor forwards the public port to at that moment (Tor's own record of the "
    "service), may only be reported while Tor really has the service and after an UPLOADED of it was delivered at some time, and after "
    "stopping the ports / after a failed second listen() nothing may be open; further histories: the old local port is refused by the reactor when listening again (somebody else took it), and the service "
    "is removed between the two listens the regular way (filesystem: config.HiddenServices.remove(service) + save() with another, unrelated "
    "service left in Tor's configuration so that the SETCONF is not empty; ephemeral: service.remove() = DEL_ONION) - uploads of the removed "
    "incarnation do not count for a new one; for 'twice without stopping' the first listener legitimately stays open: there, what the second "
    "listen() itself opened (if anything) must be what Tor forwards to; a second listen() that fails cleanly is always accepted",
    "history 'after-removal-key-reused-elsewhere' (ephemeral cells whose private key the caller chose): listen(), stop the port, service.remove() "
    "(DEL_ONION acknowledged), then a SECOND endpoint object built from the same cell on the same TorConfig listens successfully (Tor accepts the "
    "key again: same onion address, forwarded to the second endpoint's local port; its local listener is left open, or stopped through its port "
    "object - the service stays in Tor and in the config either way), then listen() again on the FIRST endpoint. Tor answers 550 (address "
    "collision) to a second ADD_ONION with that key, so a cleanly failing listen() is what correct code produces and is accepted (as any clean "
    "failure of a second listen()); a listen() that RESOLVES must have an open loopback listener of its own (opened by this very call) and Tor's "
    "record of the service must forward the public port to exactly that listener - the other endpoint's listener does not count. UPLOADED events "
    "of the other endpoint's incarnation are counted for the address (leniency: only the mapping is demanded there). The other endpoint's listener "
    "is closed through the reactor before the 'nothing left open' clauses are evaluated; the other endpoint's own listen() is not judged here",
]
TRUSTED_BASE = ["vf.fakereactor.FakeReactor (tracked listening ports, harness-resolved connects)",
                "vf.faketor.oniontor.OnionTor (reference Tor, self-tested)", "vf.refs.addonion, vf.refs.kvline (decoders, self-tested)",
                "vf.faketor.core.Link (causal delivery)", "twisted.internet.endpoints serverFromString/TCP4ServerEndpoint"]
ANCHORS = [
    "txtorcon.endpoints:TCPHiddenServiceEndpoint.listen",
    "txtorcon.endpoints:TCPHiddenServiceEndpoint.__init__",
    "txtorcon.endpoints:TCPHiddenServiceEndpoint.system_tor",
    "txtorcon.endpoints:TCPHiddenServiceEndpoint.global_tor",
    "txtorcon.endpoints:TCPHiddenServiceEndpointParser.parseStreamServer",
    "txtorcon.endpoints:TorOnionListeningPort.stopListening",
    "txtorcon.endpoints:TorOnionListeningPort.getHost",
    "txtorcon.endpoints:TorOnionAddress.__init__",
    "txtorcon.onion:_await_descriptor_upload",
    "txtorcon.onion:_add_ephemeral_service",
    "txtorcon.onion:FilesystemOnionService.create",
    "txtorcon.onion:FilesystemAuthenticatedOnionService.create",
    "txtorcon.controller:Tor.create_onion_endpoint",
    "txtorcon.controller:Tor.create_authenticated_onion_endpoint",
    "txtorcon.controller:Tor.create_filesystem_onion_endpoint",
    "txtorcon.controller:Tor.create_filesystem_authenticated_onion_endpoint",
    "txtorcon.controller:connect",
]
FLOORS = {
    "quick": {"evaluations": 1400, "listen_calls": 1400, "listeners_checked_loopback": 1200, "mappings_compared": 800,
              "not_fired_checks": 4500, "not_fired_nor_failed_on_foreign_events_checks": 500, "foreign_window_runs": 120, "gethost_compared": 180, "stop_checked": 180, "stops_after_restart_checked": 90, "leak_checks_after_failure": 1200,
              "failure_errors_compared": 1000, "refusals_before_start_checked": 10, "reactor_watched_for_starts_before_refusal": 14, "config_bootstrap_failures_compared": 150,
              "preconfigured_directory_runs": 15, "twin_runs": 20, "twin_successes_checked": 18, "own_failed_events:REASON=UNEXPECTED": 60, "own_failed_events:REASON=-": 40,
              "open_listeners_checked_at_the_instant_of_failure": 1200, "cancellations_checked": 400, "cancelled:cancelled-during-descriptor-wait": 120, "cancelled:cancelled-while-creating": 100,
              "cancelled:cancelled-before-bind": 40, "relisten_runs": 300, "relisten_successes_checked": 150,
              "relisten_open_listener_checks": 100, "relisten_failures_checked": 15, "relisten:after-stop-port-taken": 60,
              "relisten:after-service-removed": 60, "relisten:without-stop": 60, "relisten:after-removal-key-reused-elsewhere": 15,
              "key_reused:other-listening": 6, "key_reused:other-port-stopped": 6, "fault:reject-line": 120, "route:ctor-raw": 100, "fault:close-on-line": 300,
              "fault:close-after-reply": 300, "fault:reject": 120, "fault:uploads-failed": 180, "fault:bind": 90, "fault:config": 40,
              "route:ctor": 200, "route:tor": 140, "route:str-system": 80, "route:str-global": 45,
              "reach:txtorcon.endpoints:TCPHiddenServiceEndpoint.listen": 1400,
              "reach:txtorcon.endpoints:TorOnionListeningPort.stopListening": 180,
              "reach:txtorcon.endpoints:TCPHiddenServiceEndpointParser.parseStreamServer": 250,
              "reach:txtorcon.controller:connect": 150},
    "thorough": {"evaluations": 4500, "listen_calls": 4500, "listeners_checked_loopback": 3500, "mappings_compared": 2500,
                 "not_fired_checks": 14000, "not_fired_nor_failed_on_foreign_events_checks": 900, "foreign_window_runs": 200, "gethost_compared": 500, "stop_checked": 500, "stops_after_restart_checked": 250, "leak_checks_after_failure": 3500,
                 "failure_errors_compared": 3000, "refusals_before_start_checked": 10, "reactor_watched_for_starts_before_refusal": 14, "config_bootstrap_failures_compared": 400,
                 "preconfigured_directory_runs": 15, "twin_runs": 20, "twin_successes_checked": 18, "own_failed_events:REASON=UNEXPECTED": 60, "own_failed_events:REASON=-": 40,
                 "open_listeners_checked_at_the_instant_of_failure": 3500, "cancellations_checked": 900, "cancelled:cancelled-during-descriptor-wait": 200, "cancelled:cancelled-while-creating": 200,
                 "cancelled:cancelled-before-bind": 150, "relisten_runs": 400, "relisten_successes_checked": 200,
                 "relisten_open_listener_checks": 130, "relisten_failures_checked": 20, "relisten:after-stop-port-taken": 70,
                 "relisten:after-service-removed": 70, "relisten:without-stop": 70, "relisten:after-removal-key-reused-elsewhere": 20,
                 "key_reused:other-listening": 8, "key_reused:other-port-stopped": 8, "fault:reject-line": 400, "route:ctor-raw": 400, "fault:close-on-line": 1200,
                 "fault:close-after-reply": 1200, "fault:reject": 300, "fault:uploads-failed": 450, "fault:bind": 250, "fault:config": 100,
                 "random_cases": 4000,
                 "route:ctor": 400, "route:tor": 300, "route:str-system": 300, "route:str-global": 100,
                 "reach:txtorcon.endpoints:TCPHiddenServiceEndpoint.listen": 4500,
                 "reach:txtorcon.endpoints:TorOnionListeningPort.stopListening": 500,
                 "reach:txtorcon.endpoints:TCPHiddenServiceEndpointParser.parseStreamServer": 800,
                 "reach:txtorcon.controller:connect": 500},
}

ROUTES = ("ctor", "ctor-deferred", "ctor-lazy", "tor", "tor-lazy", "str-system", "str-system-unix", "str-global", "str-global-lazy",
          "ctor-raw")
# ctor-lazy: TorConfig(protocol) still bootstrapping at listen(); ctor-raw: TorConfig around a protocol that is not even connected /
# authenticated when listen() is called (the harness owns these TorConfig objects and taps their post_bootstrap)
LAZY = ("ctor-lazy", "tor-lazy", "str-system", "str-system-unix", "str-global-lazy", "ctor-raw")
OWN_CONFIG = ("ctor-lazy", "ctor-raw")
AUTH = {"none": None, "b1": ("basic", ["alice"]), "b2": ("basic", ["alice", "bob"]),
        "b2t": ("basic", ["alice", ("bob", "tok")]), "s1": ("stealth", ["alice"]), "s2": ("stealth", ["alice", "bob"])}
PUBLIC_PORTS = (80, 443, 1, 65535, 8080, 9735)
FIRST_PORTS = (41000, 1025, 65001, 50000)
MARK = "C17-injected"
# relisten history: the endpoint's ephemeral service was removed and ANOTHER endpoint object on the same TorConfig brought the same
# private key (hence the same onion address) up again before listen() is called again on the first endpoint
KEY_REUSED = "after-removal-key-reused-elsewhere"
# IListeningPort histories exercised on the port a successful listen() returned
PORT_HISTORIES = (("stop",), ("stop", "stop"), ("stop", "start", "stop"), ("stop", "start", "stop", "stop"),
                  ("stop", "stop", "start", "stop", "start", "stop"))


class InjectedConfigError(Exception):
    pass


# ---------------------------------------------------------------------------
# the cell space

def eph_cells():
    for auth in ("none", "b1", "b2t"):
        for version in (None, 2, 3):
            for key in ("none", "prefixed", "bare"):
                for hop in ("no", "yes", "yes-anon-tor"):
                    yield {"eph": True, "auth": auth, "version": version, "key": key, "hop": hop}
    # refused by the client while the service is created (after the bind)
    yield {"eph": True, "auth": "none", "version": 4, "key": "none", "hop": "no"}
    yield {"eph": True, "auth": "b1", "version": 4, "key": "none", "hop": "no"}
    yield {"eph": True, "auth": "none", "version": 3, "key": "wrong-type", "hop": "no"}
    yield {"eph": True, "auth": "none", "version": 2, "key": "wrong-type", "hop": "no"}     # Tor makes a v3 service
    yield {"eph": True, "auth": "none", "version": None, "key": "garbage", "hop": "no"}    # Tor cannot decode it


def fs_cells():
    for auth in ("none", "b1", "b2", "s1", "s2"):
        for version in (None, 2, 3):
            for d in ("existing", "missing", "implicit"):
                for gr in (False, True):
                    yield {"eph": False, "auth": auth, "version": version, "dir": d, "gr": gr}
    yield {"eph": False, "auth": "none", "version": 4, "dir": "missing", "gr": False}       # Tor refuses the version
    # the directory is given through a symlink and a service for the same directory is already in the config
    # (loaded from Tor's configuration, or created by an earlier endpoint object)
    for pre in ("tor-config", "first-endpoint"):
        for auth in ("none", "b1"):
            for version in (2, 3):
                if auth == "b1" and version == 3:
                    continue            # Tor itself refuses authorised clients on version 3
                yield {"eph": False, "auth": auth, "version": version, "dir": "symlink", "pre": pre, "gr": False}


def supports(route, cell):
    if route.startswith("ctor"):
        return not (cell.get("pre") == "first-endpoint" and route not in ("ctor", "ctor-deferred"))
    if route.startswith("tor"):
        if cell["eph"]:
            return not (cell["auth"] != "none" and cell["hop"] != "no")
        if cell.get("pre") == "first-endpoint" and route != "tor":
            return False
        return cell["dir"] != "implicit"
    if cell.get("pre"):
        return False            # the string parser resolves symlinks itself
    # endpoint strings: no auth, no group-readable; a directory makes it a filesystem service; the parser itself
    # refuses versions other than 2 and 3 (see invalid_cases)
    if cell["auth"] != "none" or cell["version"] == 4:
        return False
    if cell["eph"]:
        return True
    return cell["dir"] != "implicit" and not cell["gr"]


def decorate(cell, i):
    """port numbers etc. derived from the cell's index (deterministic, varied)"""
    c = dict(cell)
    c["public_port"] = PUBLIC_PORTS[i % len(PUBLIC_PORTS)]
    c["local_port"] = None if i % 3 else 9876 + (i % 7)
    c["first_port"] = FIRST_PORTS[i % len(FIRST_PORTS)]
    c["ndirs"] = 1 + i % 3
    c["noise"] = bool(i % 2)
    c["history"] = i % len(PORT_HISTORIES)
    return c


def all_cells():
    out = []
    for i, c in enumerate(list(eph_cells()) + list(fs_cells())):
        out.append(decorate(c, i))
    return out


def base_faults(route, cell):
    """fault points that do not depend on the length of the dialogue"""
    f = [["none"], ["none", "hold"], ["none", "foreign-window", "uploaded"], ["none", "foreign-window", "failed"], ["bind"]]
    if route == "ctor-deferred":
        f += [["config", "fails-before-listen"], ["config", "fails-after-listen"]]
    if route in ("str-system", "str-system-unix"):
        f += [["config", "connection-refused"]]
    if route == "ctor-raw":
        f += [["config", "auth-fails"]]
    word = "ADD_ONION" if cell["eph"] else "SETCONF"
    for code in ((512, 550) if cell["eph"] else (513, 553)):
        f.append(["reject", word, code])
    for n in (1, 2, 3):
        f.append(["uploads-failed", n])
    # the same with the other ways Tor words a failed upload: REASON=UNEXPECTED, no REASON field, varied per directory
    f += [["uploads-failed", 1, "unexpected"], ["uploads-failed", 2, "unexpected"], ["uploads-failed", 1, "no-reason"], ["uploads-failed", 3, "mixed"]]
    if route not in LAZY:
        f.append(["lose", "before-listen"])
    f.append(["lose", "after-upload"])
    if route == "tor-lazy":
        # a SECOND endpoint made from the same Tor object before its config was fetched; its listen() is called before / right after /
        # in the middle of (config fetch unanswered) the first one's; each listen() is judged on its own
        f += [["none", "twin", "first"], ["none", "twin", "second"], ["none", "twin", "midway"]]
    # the caller of listen() gives up (d.cancel() / an addTimeout expiring): right after the call, and inside the descriptor wait
    f += [["cancel", "after-listen"], ["cancel", "descriptor-wait"], ["cancel", "timeout-in-descriptor-wait"]]
    # histories on ONE endpoint object: listen() again after the returned port was stopped / without stopping it /
    # after a failed listen() (the injected fault hits the first listen() only)
    f += [["none", "relisten", "after-stop"], ["none", "relisten", "without-stop"],
          ["none", "relisten", "after-stop-port-taken"], ["none", "relisten", "after-service-removed"],
          ["reject", word, 512 if cell["eph"] else 513, "relisten"], ["uploads-failed", 1, "relisten"], ["bind", "relisten"]]
    if cell["eph"] and cell.get("key") in ("prefixed", "bare", "wrong-type"):
        # the caller chose the key: after the service was removed, a second endpoint object (same TorConfig, same key) serves the
        # same onion address - with its local listener still open, or stopped - when listen() is called again on the first one
        variant = ("other-listening", "other-port-stopped")[(ROUTES.index(route) + int(cell.get("history") or 0)) % 2]
        f.append(["none", "relisten", KEY_REUSED, variant])
    return f


def line_faults(n_lines, route=None, ks=None, cancel_ks=None):
    f = []
    for k in (ks if ks is not None else range(1, n_lines + 1)):
        f.append(["close-on-line", k])
        f.append(["close-after-reply", k])
        if route in OWN_CONFIG:
            f.append(["reject-line", k])         # Tor answers 5xx to the k-th line and stays connected
        if cancel_ks is None or k in cancel_ks:
            f.append(["cancel-on-line", k])      # the caller cancels listen()'s Deferred while the k-th line is unanswered
    return f


# invalid option combinations: (id, route, kwargs-ish description)
def invalid_cases():
    out = []
    for name in ("eph+stealth", "eph-default+stealth", "eph+hsdir", "key+non-ephemeral", "key+hsdir-implied-non-ephemeral",
                 "single-hop+non-ephemeral", "stealth_auth+auth", "stealth_auth-deprecated+ephemeral", "config-not-a-torconfig",
                 "config-deferred-not-a-torconfig"):
        out.append({"invalid": name, "route": "ctor"})
    for name in ("tor:eph+stealth",):
        out.append({"invalid": name, "route": "tor"})
        out.append({"invalid": name, "route": "tor-lazy"})
    for name in ("str:key+keyfile", "str:hsdir+key", "str:hsdir+keyfile", "str:singlehop-bogus", "str:version-foo", "str:version-1",
                 "str:version-4", "str:public-port-not-int", "str:local-port-not-int", "str:keyfile-garbage", "str:hsdir+singlehop",
                 "str:unknown-keyword", "str:empty-hsdir+singlehop", "str:empty-hsdir+key", "str:empty-hsdir+keyfile", "str:empty-keyfile",
                 "str:empty-version", "str:empty-localport", "str:empty-singlehop", "str:empty-public-port"):
        for route in ("str-system", "str-system-unix", "str-global", "str-global-unseeded"):
            out.append({"invalid": name, "route": route})
    res = []
    for v in range(3):
        for i, c in enumerate(out):
            c = dict(c)
            c["public_port"] = PUBLIC_PORTS[(i + 2 * v) % len(PUBLIC_PORTS)]
            c["first_port"] = FIRST_PORTS[(i + v) % len(FIRST_PORTS)]
            res.append(c)
    return res


# ---------------------------------------------------------------------------
# scratch space

_ROOT = []
_SAVED_TMP = []


def scratch_root():
    if not _ROOT:
        _ROOT.append(os.path.realpath(tempfile.mkdtemp(prefix="vf-c17-")))
        _SAVED_TMP.append(tempfile.tempdir)
        # tempfile.mkdtemp() calls made by the code under test (implicit 'tortmp*' directories) land in the scratch root
        tempfile.tempdir = _ROOT[0]
    return _ROOT[0]


def cleanup_root():
    while _ROOT:
        tempfile.tempdir = _SAVED_TMP.pop()
        shutil.rmtree(_ROOT.pop(), ignore_errors=True)


_QUIET = []


def quiet_logs():
    if not _QUIET:
        _QUIET.append(1)
        from twisted.logger import globalLogBeginner
        globalLogBeginner.beginLoggingTo([lambda ev: None], redirectStandardIO=False, discardBuffer=True)


_PLUGIN = []


def install_plugin_shortcut():
    """serverFromString finds the 'onion' parser through twisted.plugin.getPlugins (which may write dropin.cache files next to
    the plugin modules); hand it the object the plugin module creates instead"""
    if _PLUGIN:
        return
    from twisted.internet import endpoints as TE
    from twisted.internet.interfaces import IStreamServerEndpointStringParser
    import txtorcon
    orig = TE.getPlugins

    def getPlugins(interface, package=None):
        if interface is IStreamServerEndpointStringParser:
            return [txtorcon.TCPHiddenServiceEndpointParser()]
        return orig(interface) if package is None else orig(interface, package)
    TE.getPlugins = getPlugins
    _PLUGIN.append(orig)


def is_loopback(iface):
    if iface == "::1":
        return True
    p = iface.split(".")
    return len(p) == 4 and p[0] == "127" and all(x.isdigit() and 0 <= int(x) <= 255 for x in p)


# ---------------------------------------------------------------------------
# one execution

class Obs(object):
    """what the monitors saw in one execution"""

    def __init__(self):
        self.listen_calls = []        # {"port","interface","ok","lp"}
        self.steps = []               # (name, fired?)
        self.construct_exc = None
        self.listen_raised = None
        self.outcome = None
        self.at_fire = None           # snapshot taken inside the callback of listen()'s Deferred
        self.harness = None
        self.create_seen = []         # {"line","open":[(iface,port)],"idx"} when the creating command reached Tor
        self.lines0 = 0
        self.lines_at_fire = None
        self.host = None
        self.port_history = None
        self.open_after_stop = None
        self.open_at_end = None
        self.log_errors = []
        self.connect_attempts = 0
        self.expected_host = None
        self.expected_host_judged = True
        self.own_uploaded_sent = 0
        self.own_upload_sent = 0
        self.own_failed_sent = 0
        self.lost_by_fault = False
        self.hsdir = None
        self.state_lines_at_refusal = None
        self.implicit_dir_removed = None
        self.foreign_window_events = 0
        self.config_bootstrap = None      # ("ok"|"err", value, listen already fired?) of a TorConfig the harness created
        self.spawned = 0
        self.rejected_line = None
        self.uploaded_for = {}            # service id -> own UPLOADED events sent so far
        self.relisten = None              # observations of the second listen() on the same endpoint object
        self.failed_reasons = []
        self.async_stops_completed = 0
        self.open_when_listen_fired = None     # the reactor's open listeners at the instant listen()'s Deferred fired
        self.twin = None                  # observations of a second endpoint made from the same Tor object
        self.first_sid = None             # HS_DESC address of the service of the first listen()
        self.cancelled = None             # {"bound": bool, "create_acked": bool, "how": ...} when the caller cancelled before listen() fired
        self.first_listen_calls = None
        self.first_create_seen = None
        self.started_before_refusal = None


def _auth_obj(cell):
    from txtorcon.onion import AuthBasic, AuthStealth
    a = AUTH[cell["auth"]]
    if a is None:
        return None
    clients = []
    for c in a[1]:
        if isinstance(c, (tuple, list)):
            clients.append((c[0], OT.client_cookie("c17/" + c[0])))
        else:
            clients.append(c)
    return (AuthBasic if a[0] == "basic" else AuthStealth)(clients)


def _key_for(cell):
    """(constructor value, expected key type)"""
    k = cell.get("key", "none")
    if k == "none":
        return None
    v3 = cell["version"] == 3
    if k == "wrong-type":
        v3 = not v3
    if k == "garbage":
        return "RSA1024:AAAA"
    key = OT.KEYS.ed(OT.CALLER_BASE + 17) if v3 else OT.KEYS.rsa(OT.CALLER_BASE + 17)
    if k == "bare":
        return key.blob
    return key.spec()


class World(object):
    def __init__(self, case):
        from twisted.internet import defer
        from txtorcon import endpoints as EP
        self.case = case
        self.cell = case.get("cell") or {}
        self.route = case["route"]
        self.fault = list(case.get("fault") or ["none"])
        self.obs = Obs()
        self.root = scratch_root()
        EP._global_tor = None
        EP._global_tor_lock = defer.DeferredLock()
        nonanon = self.cell.get("hop") == "yes"
        conf = OT.default_conf(extra_options={"ControlPort": "LineList", "SocksPort": "LineList"},
                               values={"ControlPort": ["9051"], "SocksPort": ["9050"]})
        if nonanon:
            conf.values["HiddenServiceSingleHopMode"] = ["1"]
            conf.values["HiddenServiceNonAnonymousMode"] = ["1"]
        if self.fault == ["config", "auth-fails"]:
            self.tor = OT.OnionTor(non_anonymous_mode=nonanon, conf=conf, auth_methods=("HASHEDPASSWORD",), password=b"the right one")
        else:
            self.tor = OT.OnionTor(non_anonymous_mode=nonanon, conf=conf)
        self.other_dir = None
        if self.fault[:3] == ["none", "relisten", "after-service-removed"] and not self.cell.get("eph", True):
            # Tor already hosts an unrelated filesystem service: removing ours later is then an ordinary, non-empty SETCONF
            other = tempfile.mkdtemp(prefix="hsother", dir=self.root)
            self.tor.authenticated = True
            r0 = self.tor.dispatch('SETCONF HiddenServiceDir=%s HiddenServicePort="9999 127.0.0.1:9999" HiddenServiceVersion=3' % other)
            self.tor.authenticated = False
            self.other_dir = other if r0 and r0 != "close" and r0[0] == 250 else None
        self.reactor = FakeReactor(first_port=case.get("first_port") or self.cell.get("first_port") or 41000)
        self.reactor.hold_stop_listening = True       # see pump()
        self._wrap_listen()
        self.link = None
        self.proto = None
        self.cfg = None
        self.cfg_deferred = None
        self.attempt = None
        self.aud = audit.Auditor(wire.LClock())
        self.logs = audit.LogCapture()
        self.armed_lines = 0
        self.n_replies = 0
        self.ep = None
        self.tmpfiles = []
        self.real_dir = None
        self.twin_ep = None
        self.twin_factory = None
        self.replies0 = 0
        self.replies1 = None          # end of the first listen()'s dialogue (set when a second listen() starts)
        self._unstub = None

    # -- monitors ---------------------------------------------------------------
    def _wrap_listen(self):
        r = self.reactor
        orig = r.listenTCP
        calls = self.obs.listen_calls

        def listenTCP(port, factory, backlog=50, interface=""):
            ent = {"port": port, "interface": interface, "ok": None, "lp": None, "factory": factory}
            calls.append(ent)
            try:
                lp = orig(port, factory, backlog, interface)
            except Exception:
                ent["ok"] = False
                raise
            ent["ok"] = True
            ent["lp"] = lp
            return lp
        r.listenTCP = listenTCP

    def open_ports(self):
        return [(lp.interface, lp.port) for lp in self.reactor.open_ports()]

    def _on_line(self, line):
        self.armed_lines += 1
        w = line.partition(" ")[0].upper()
        if w == "ADD_ONION" or (w in ("SETCONF", "RESETCONF") and "hiddenservicedir" in line.lower()):
            self.obs.create_seen.append({"line": line, "open": self.open_ports(), "idx": self.armed_lines})
        f = self.fault
        if f[0] == "close-on-line" and self.armed_lines == f[1]:
            self.tor.scripted.insert(0, (lambda l: True, "close", True))
            self.obs.lost_by_fault = True
        if f[:3] == ["none", "twin", "midway"] and self.armed_lines == 3:
            self.twin_listen()          # the first endpoint's listen() is waiting for the config fetch, which Tor has not answered yet
        if f[0] == "cancel-on-line" and self.armed_lines == f[1]:
            self.cancel_listen("cancel() while line %d is unanswered" % f[1])
        if f[0] == "reject-line" and self.armed_lines == f[1]:
            self.tor.scripted.insert(0, (lambda l: True, (552, [("end", "Unrecognized or refused: %s (%s)" % (w, MARK))]), True))
            self.obs.rejected_line = line

    def _after_reply(self, line, code):
        self.n_replies += 1
        f = self.fault
        if f[0] == "close-after-reply" and self.n_replies == f[1]:
            self.tor.closed = True
            self.obs.lost_by_fault = True

    def arm(self):
        self.obs.lines0 = len(self.tor.lines)
        self.replies0 = len(self.tor.replies)
        self.tor.on_line.append(self._on_line)
        self.tor.after_reply.append(self._after_reply)
        f = self.fault
        if f[0] == "bind":
            self.reactor.refuse_listen(lambda p, i: True)
        elif f[0] == "reject":
            self.tor.script(f[1], (f[2], [("end", "Unacceptable option value: %s refused (%s)" % (f[1], MARK))]))
        elif f[0] == "none" and len(f) > 1 and f[1] in ("hold", "foreign-window"):
            self.tor.hold_next("ADD_ONION" if self.cell.get("eph", True) else "SETCONF")

    # -- plumbing ---------------------------------------------------------------
    def connect_link(self, proto=None):
        import txtorcon
        chunk = self.case.get("chunking") or (1 << 30,)
        if proto is None:
            proto = txtorcon.TorControlProtocol()
            self.link = Link(proto, self.tor, chunk).connect()
        self.proto = proto
        return proto

    def pump(self):
        if self.link is not None and not self.link.lost:
            self.link.pump()
        self.reactor.flush()
        # a listening port closes asynchronously, like a real twisted Port: stopListening() hands out an unfired Deferred and the
        # close completes here, on a later reactor turn
        for lp in list(self.reactor.ports):
            if getattr(lp, "_stopping", None) is not None:
                lp.finish_stop()
                self.obs.async_stops_completed += 1
        self.reactor.flush()
        if self.link is not None and not self.link.lost:
            self.link.pump()

    def step(self, name):
        self.pump()
        o = self.obs.outcome
        self.obs.steps.append((name, bool(o is not None and o.fired), _create_acked(self)))
        for e in self.logs.take():
            if len(self.obs.log_errors) < 6:
                self.obs.log_errors.append((name, e[0], e[1][:160]))

    # -- the twin endpoint --------------------------------------------------------
    def twin_port(self):
        for c in self.obs.listen_calls:
            if c["ok"] and self.twin_factory is not None and c["factory"] is self.twin_factory:
                return c["lp"].port
        return None

    def is_twin_line(self, line):
        tp = self.twin_port()
        if tp is None or line.partition(" ")[0].upper() != "ADD_ONION":
            return False
        return any(tok.startswith("Port=") and tok.endswith(":%d" % tp) for tok in line.split(" "))

    def twin_service(self):
        for ent in reversed(self.tor.add_onion_log):
            if ent["code"] == 250 and self.is_twin_line("ADD_ONION " + ent["rest"]):
                return ent["service_id"]
        return None

    def twin_listen(self):
        from twisted.internet import protocol
        if self.twin_ep is None or self.obs.twin is not None:
            return
        t = self.obs.twin = {"order": self.fault[2], "raised": None, "outcome": None, "at_fire": None, "uploaded_sent": 0,
                             "open_after_listen": None, "mapping": None, "open_after_stop": None, "stop_raised": None}
        self.twin_factory = protocol.Factory()
        try:
            d = self.twin_ep.listen(self.twin_factory)
        except Exception as e:      # noqa
            t["raised"] = repr(e)
            return
        t["outcome"] = self.aud.watch(d, "twin-listen")

        def snap(res):
            sid = self.twin_service()
            t["at_fire"] = {"service_in_tor": bool(sid and sid in self.tor.onions), "own_uploaded_sent": t["uploaded_sent"]}
            return res
        d.addBoth(snap)

    def cancel_listen(self, how):
        """the caller of listen() cancels the Deferred it was given (only meaningful while it has not fired)"""
        d, o = getattr(self, "listen_deferred", None), self.obs.outcome
        if d is None or o is None or o.fired or self.obs.cancelled is not None:
            return False
        self.obs.cancelled = {"bound": bool([c for c in self.obs.listen_calls if c["ok"]]), "create_acked": _create_acked(self), "how": how}
        d.cancel()
        return True

    def lose(self):
        if self.link is not None and not self.link.lost:
            self.obs.lost_by_fault = True
            self.link.lose()

    # -- construction -----------------------------------------------------------
    def hsdir_for(self):
        d = self.cell.get("dir")
        if d == "existing":
            p = tempfile.mkdtemp(prefix="hs", dir=self.root)
        elif d == "missing":
            p = os.path.join(tempfile.mkdtemp(prefix="hsp", dir=self.root), "not-yet")
        elif d == "symlink":
            top = tempfile.mkdtemp(prefix="hsl", dir=self.root)
            self.real_dir = os.path.join(top, "real")
            os.mkdir(self.real_dir, 0o700)
            p = os.path.join(top, "link")
            os.symlink(self.real_dir, p)
        else:
            p = None
        return p

    def preconfigure(self):
        """Tor's configuration already holds a service for the (real) directory"""
        if self.cell.get("pre") != "tor-config":
            return
        cell = self.cell
        line = 'SETCONF HiddenServiceDir=%s HiddenServicePort="%d 127.0.0.1:8080" HiddenServiceVersion=%d' % (
            self.real_dir, cell["public_port"], cell["version"])
        a = AUTH[cell["auth"]]
        if a is not None:
            line += ' HiddenServiceAuthorizeClient="%s %s"' % (a[0], ",".join(a[1]))
        rep = self.tor.dispatch(line)
        if rep is None or rep == "close" or rep[0] != 250:
            self.obs.harness = "could not preconfigure Tor: %r" % (rep,)

    def first_endpoint(self):
        """an earlier endpoint object created (and stopped) a service for the real directory on the same config"""
        from twisted.internet import protocol
        from txtorcon import TCPHiddenServiceEndpoint
        cell = self.cell
        ep0 = TCPHiddenServiceEndpoint(self.reactor, self.cfg, cell["public_port"], hidden_service_dir=self.real_dir,
                                       version=cell["version"], auth=_auth_obj(cell))
        res = []
        ep0.listen(protocol.Factory()).addBoth(res.append)
        self.link.pump()
        sid = [x.service_id for x in self.tor.fs_services if os.path.realpath(x.directory) == os.path.realpath(self.real_dir)]
        if sid:
            self.tor.hs_desc("UPLOAD", sid[0], 0, descid=AO.descriptor_id(sid[0], 0))
            self.link.pump()
            self.tor.hs_desc("UPLOADED", sid[0], 0)
            self.link.pump()
        if not res or not hasattr(res[0], "stopListening"):
            self.obs.harness = "first endpoint did not come up: %r" % (res,)
            return
        # the first endpoint's listener is closed through the reactor (not through the code under test), so that only the
        # second endpoint's listeners are judged
        for lp in self.reactor.open_ports():
            lp.stopListening()
            lp.finish_stop()
        self.reactor.flush()
        del self.obs.listen_calls[:]

    def bootstrapped_config(self):
        from txtorcon import TorConfig
        self.connect_link()
        self.link.pump()
        self.preconfigure()
        d = TorConfig.from_protocol(self.proto)
        self.link.pump()
        if not d.called or not hasattr(d, "result") or not isinstance(d.result, TorConfig):
            self.obs.harness = "config bootstrap stalled: %r" % (self.tor.lines[-3:],)
            return None
        self.cfg = d.result
        return self.cfg

    def build(self):
        """prepare the route and construct the endpoint; returns the endpoint or None (obs.construct_exc set)"""
        import txtorcon
        from twisted.internet import defer
        from txtorcon import TorConfig, TCPHiddenServiceEndpoint
        from txtorcon.controller import Tor
        case, cell, route = self.case, self.cell, self.route
        inv = case.get("invalid")
        hsdir = None
        if not inv and not cell["eph"]:
            hsdir = self.hsdir_for()
        self.obs.hsdir = hsdir

        # ---- control connection / config per route
        config_arg = None
        tor_obj = None
        if route in ("ctor", "ctor-deferred", "tor", "str-global"):
            cfg = self.bootstrapped_config()
            if cfg is None:
                return None
            if route == "ctor":
                config_arg = cfg
            elif route == "ctor-deferred":
                if self.fault == ["config", "fails-before-listen"]:
                    config_arg = defer.fail(InjectedConfigError("config unavailable (%s)" % MARK))
                else:
                    config_arg = self.cfg_deferred = defer.Deferred()
            else:
                tor_obj = Tor(self.reactor, self.proto, _tor_config=cfg)
            if cell.get("pre") == "first-endpoint":
                self.first_endpoint()
                if self.obs.harness:
                    return None
            self.arm()
        elif route in ("ctor-lazy", "tor-lazy", "str-global-lazy"):
            self.connect_link()
            self.link.pump()
            if not self.proto.post_bootstrap.called:
                self.obs.harness = "protocol bootstrap stalled"
                return None
            self.preconfigure()
            if self.obs.harness:
                return None
            self.arm()
            if route == "ctor-lazy":
                config_arg = TorConfig(self.proto)       # bootstrap commands queued, nothing pumped yet
                self.tap_config(config_arg)
            else:
                tor_obj = Tor(self.reactor, self.proto, _tor_config=None)
        elif route == "ctor-raw":
            # the control protocol is not connected yet; it connects, authenticates and bootstraps after listen() was called
            pw = (lambda: "not the right one") if self.fault == ["config", "auth-fails"] else None
            self.proto = txtorcon.TorControlProtocol(pw)
            if cell.get("pre"):
                self.tor.authenticated = True
                self.preconfigure()
                self.tor.authenticated = False
                if self.obs.harness:
                    return None
            self.arm()
            config_arg = TorConfig(self.proto)
            self.tap_config(config_arg)
        else:
            self.arm()                                   # str-system*: the connection is made by txtorcon.connect
            if route == "str-global-unseeded":
                # no global Tor exists: global_tor() launches one; only the lookup of the binary is stubbed
                import txtorcon.controller as TC
                self._unstub = (TC, TC.find_tor_binary)
                TC.find_tor_binary = lambda *a, **kw: "/nonexistent/bin/tor"
        if route in ("str-global", "str-global-lazy"):
            from txtorcon import endpoints as EP
            d = EP.get_global_tor_instance(self.reactor, _tor_launcher=lambda r, progress_updates=None: defer.succeed(tor_obj))
            self.aud.watch(d, "seed-global-tor")

        # ---- the endpoint
        try:
            if inv:
                ep = self._build_invalid(inv, config_arg, tor_obj)
            elif route.startswith("ctor"):
                ep = self._build_ctor(TCPHiddenServiceEndpoint, config_arg, hsdir)
            elif route.startswith("tor"):
                ep = self._build_tor(tor_obj, hsdir)
                if self.fault[:2] == ["none", "twin"]:
                    tp = cell["public_port"] + 1 if cell["public_port"] < 65535 else cell["public_port"] - 1
                    self.twin_public_port = tp
                    # (on a non-anonymous Tor only single-hop services are accepted)
                    self.twin_ep = tor_obj.create_onion_endpoint(tp, single_hop=True if cell.get("hop") == "yes" else None)
            else:
                ep = self._build_string(hsdir)
        except Exception as e:          # noqa: whatever the constructor raises is an observation
            self.obs.construct_exc = e
            ep = None
        finally:
            if getattr(self, "_unstub", None):
                setattr(self._unstub[0], "find_tor_binary", self._unstub[1])
                self._unstub = None
        self.obs.connect_attempts = len(self.reactor.connections)
        self.obs.spawned = len(self.reactor.processes)
        if ep is None:
            self.obs.started_before_refusal = {
                "connects": [(a.kind, a.host, a.port) for a in self.reactor.connections],
                "spawned": [os.path.basename(str(p.executable)) for p in self.reactor.processes],
                "listen_calls": [(c["interface"], c["port"]) for c in self.obs.listen_calls]}
        self.ep = ep
        return ep

    def tap_config(self, cfg):
        """record how the bootstrap of a TorConfig made by the harness ends; the result is passed on untouched"""
        from twisted.python import failure

        def tap(res):
            o = self.obs.outcome
            bad = isinstance(res, failure.Failure)       # (a TorConfig raises KeyError from hasattr(): no duck typing here)
            self.obs.config_bootstrap = ("err" if bad else "ok", res.value if bad else None, bool(o is not None and o.fired))
            return res
        cfg.post_bootstrap.addBoth(tap)

    def _build_ctor(self, cls, config_arg, hsdir):
        cell = self.cell
        kw = {}
        if cell["eph"]:
            kw["private_key"] = _key_for(cell)
            if cell["hop"] != "no":
                kw["single_hop"] = True
            elif cell["public_port"] % 2:
                kw["single_hop"] = False
            if cell["public_port"] in (80, 1):
                kw["ephemeral"] = True
        else:
            if hsdir is not None:
                kw["hidden_service_dir"] = hsdir
            else:
                kw["ephemeral"] = False
            if cell["gr"]:
                kw["group_readable"] = True
        if cell["version"] is not None:
            kw["version"] = cell["version"]
        if cell["local_port"] is not None:
            kw["local_port"] = cell["local_port"]
        auth = _auth_obj(cell)
        if auth is not None:
            if cell["auth"].startswith("s") and cell["gr"]:
                kw["stealth_auth"] = list(AUTH[cell["auth"]][1])       # the deprecated spelling
            else:
                kw["auth"] = auth
        return cls(self.reactor, config_arg, cell["public_port"], **kw)

    def _build_tor(self, tor_obj, hsdir):
        cell = self.cell
        auth = _auth_obj(cell)
        kw = {}
        if cell["version"] is not None:
            kw["version"] = cell["version"]
        if cell["eph"]:
            if _key_for(cell) is not None:
                kw["private_key"] = _key_for(cell)
            if auth is not None:
                return tor_obj.create_authenticated_onion_endpoint(cell["public_port"], auth, **kw)
            if cell["hop"] != "no":
                kw["single_hop"] = True
            return tor_obj.create_onion_endpoint(cell["public_port"], **kw)
        if cell["gr"]:
            kw["group_readable"] = True
        if auth is not None:
            return tor_obj.create_filesystem_authenticated_onion_endpoint(cell["public_port"], hsdir, auth, **kw)
        return tor_obj.create_filesystem_onion_endpoint(cell["public_port"], hsdir, **kw)

    def _control_arg(self):
        if self.route == "str-system":
            return ":controlPort=9051"
        if self.route == "str-system-unix":
            return ":controlPort=" + self._q(os.path.join(self.root, "control.sock"))
        return ""

    @staticmethod
    def _q(s):
        from twisted.internet.endpoints import quoteStringArgument
        return quoteStringArgument(s)

    def _keyfile(self, content, binary=False):
        fd, p = tempfile.mkstemp(prefix="key", dir=self.root)
        with os.fdopen(fd, "wb") as f:
            f.write(content if binary else content.encode("ascii"))
        self.tmpfiles.append(p)
        return p

    def _build_string(self, hsdir):
        from twisted.internet.endpoints import serverFromString
        cell = self.cell
        s = "onion:%d" % cell["public_port"]
        if cell["local_port"] is not None:
            s += ":localPort=%d" % cell["local_port"]
        s += self._control_arg()
        if cell["version"] is not None:
            s += ":version=%d" % cell["version"]
        if cell["eph"]:
            k = _key_for(cell)
            if k is not None:
                if cell["public_port"] % 2 and cell["key"] == "prefixed":
                    # the same key from a file, in the format Tor writes into a HiddenServiceDir
                    v3 = k.startswith("ED25519")
                    key = OT.KEYS.ed(OT.CALLER_BASE + 17) if v3 else OT.KEYS.rsa(OT.CALLER_BASE + 17)
                    p = self._keyfile(key.secret_file(), True) if v3 else self._keyfile(key.pem)
                    s += ":privateKeyFile=" + self._q(p)
                else:
                    s += ":privateKey=" + self._q(k)
            if cell["hop"] != "no":
                s += ":singleHop=true"
            elif cell["public_port"] in (443, 8080):
                s += ":singleHop=false"
        else:
            s += ":hiddenServiceDir=" + self._q(hsdir)
        self.case_string = s
        return serverFromString(self.reactor, s)

    def _build_invalid(self, inv, config_arg, tor_obj):
        from twisted.internet.endpoints import serverFromString
        from txtorcon import TCPHiddenServiceEndpoint as E
        from txtorcon.onion import AuthBasic, AuthStealth
        r, port = self.reactor, self.case["public_port"]
        d = tempfile.mkdtemp(prefix="hsinv", dir=self.root)
        rsa = OT.KEYS.rsa(OT.CALLER_BASE + 17)
        if inv == "eph+stealth":
            return E(r, config_arg, port, ephemeral=True, auth=AuthStealth(["alice"]))
        if inv == "eph-default+stealth":
            return E(r, config_arg, port, auth=AuthStealth(["alice", "bob"]))
        if inv == "eph+hsdir":
            return E(r, config_arg, port, ephemeral=True, hidden_service_dir=d)
        if inv == "key+non-ephemeral":
            return E(r, config_arg, port, ephemeral=False, private_key=rsa.spec())
        if inv == "key+hsdir-implied-non-ephemeral":
            return E(r, config_arg, port, hidden_service_dir=d, private_key=rsa.spec())
        if inv == "single-hop+non-ephemeral":
            return E(r, config_arg, port, hidden_service_dir=d, single_hop=True)
        if inv == "stealth_auth+auth":
            return E(r, config_arg, port, hidden_service_dir=d, stealth_auth=["alice"], auth=AuthBasic(["bob"]))
        if inv == "stealth_auth-deprecated+ephemeral":
            return E(r, config_arg, port, stealth_auth=["alice"])
        if inv == "config-not-a-torconfig":
            return E(r, object(), port)
        if inv == "config-deferred-not-a-torconfig":
            from twisted.internet import defer
            return E(r, defer.succeed({"not": "a config"}), port, hidden_service_dir=d)
        if inv == "tor:eph+stealth":
            return tor_obj.create_authenticated_onion_endpoint(port, AuthStealth(["alice"]))
        cp = self._control_arg()
        if inv == "str:key+keyfile":
            p = self._keyfile(rsa.spec())
            return serverFromString(r, "onion:%d%s:privateKey=%s:privateKeyFile=%s" % (port, cp, self._q(rsa.spec()), self._q(p)))
        if inv == "str:hsdir+key":
            return serverFromString(r, "onion:%d%s:hiddenServiceDir=%s:privateKey=%s" % (port, cp, self._q(d), self._q(rsa.spec())))
        if inv == "str:hsdir+keyfile":
            p = self._keyfile(rsa.pem)
            return serverFromString(r, "onion:%d%s:hiddenServiceDir=%s:privateKeyFile=%s" % (port, cp, self._q(d), self._q(p)))
        if inv == "str:singlehop-bogus":
            return serverFromString(r, "onion:%d%s:singleHop=maybe" % (port, cp))
        if inv == "str:version-foo":
            return serverFromString(r, "onion:%d%s:version=foo" % (port, cp))
        if inv == "str:version-1":
            return serverFromString(r, "onion:%d%s:version=1" % (port, cp))
        if inv == "str:version-4":
            return serverFromString(r, "onion:%d%s:version=4:hiddenServiceDir=%s" % (port, cp, self._q(d)))
        if inv == "str:public-port-not-int":
            return serverFromString(r, "onion:http%s" % cp)
        if inv == "str:local-port-not-int":
            return serverFromString(r, "onion:%d%s:localPort=http" % (port, cp))
        if inv == "str:keyfile-garbage":
            p = self._keyfile("this is not a key\n")
            return serverFromString(r, "onion:%d%s:privateKeyFile=%s" % (port, cp, self._q(p)))
        if inv == "str:hsdir+singlehop":
            return serverFromString(r, "onion:%d%s:hiddenServiceDir=%s:singleHop=true" % (port, cp, self._q(d)))
        if inv == "str:unknown-keyword":
            return serverFromString(r, "onion:%d%s:noSuchOption=1" % (port, cp))
        # options given with an EMPTY value
        if inv == "str:empty-hsdir+singlehop":
            return serverFromString(r, "onion:%d%s:hiddenServiceDir=:singleHop=true" % (port, cp))
        if inv == "str:empty-hsdir+key":
            return serverFromString(r, "onion:%d%s:hiddenServiceDir=:privateKey=%s" % (port, cp, self._q(rsa.spec())))
        if inv == "str:empty-hsdir+keyfile":
            p = self._keyfile(rsa.pem)
            return serverFromString(r, "onion:%d%s:hiddenServiceDir=:privateKeyFile=%s" % (port, cp, self._q(p)))
        if inv == "str:empty-keyfile":
            return serverFromString(r, "onion:%d%s:privateKeyFile=" % (port, cp))
        if inv == "str:empty-version":
            return serverFromString(r, "onion:%d%s:version=" % (port, cp))
        if inv == "str:empty-localport":
            return serverFromString(r, "onion:%d%s:localPort=" % (port, cp))
        if inv == "str:empty-singlehop":
            return serverFromString(r, "onion:%d%s:singleHop=" % (port, cp))
        if inv == "str:empty-public-port":
            return serverFromString(r, "onion:%s" % cp)
        raise AssertionError("unknown invalid case " + inv)

    # -- the config becomes available (or not) -----------------------------------
    def resolve_config(self):
        from twisted.internet import error
        route, f = self.route, self.fault
        if route == "ctor-deferred" and self.cfg_deferred is not None:
            if f == ["config", "fails-after-listen"]:
                self.cfg_deferred.errback(InjectedConfigError("config unavailable (%s)" % MARK))
            else:
                self.cfg_deferred.callback(self.cfg)
        elif route == "ctor-raw":
            self.link = Link(self.proto, self.tor, self.case.get("chunking") or (1 << 30,)).connect()
        elif route in ("str-system", "str-system-unix"):
            pend = self.reactor.pending_connections()
            if len(pend) != 1:
                self.obs.harness = "expected one pending control connection, saw %d" % len(pend)
                return
            att = pend[0]
            want = ("tcp", "127.0.0.1", 9051) if route == "str-system" else ("unix", os.path.join(self.root, "control.sock"), None)
            if (att.kind, att.host, att.port) != want:
                self.obs.harness = "control connection to %r, expected %r" % ((att.kind, att.host, att.port), want)
                return
            if f == ["config", "connection-refused"]:
                att.fail(error.ConnectionRefusedError("Connection refused (%s)" % MARK))
            else:
                self.link = Link(None, self.tor, self.case.get("chunking") or (1 << 30,))
                self.link.proto = att.succeed(self.link.transport)

    # -- the own service as Tor knows it ------------------------------------------
    def service(self):
        """(HS_DESC address, expected hostname | None, judged?) of the service Tor created for this endpoint, or None"""
        tor = self.tor
        if self.cell.get("eph", True):
            for ent in reversed(tor.add_onion_log):
                if ent["code"] == 250 and not self.is_twin_line("ADD_ONION " + ent["rest"]):
                    return ent["service_id"], ent["service_id"] + ".onion", True
            return None
        want = os.path.realpath(self.ep.hidden_service_dir) if self.ep is not None and self.ep.hidden_service_dir else None
        for s in tor.fs_services:
            if want is not None and os.path.realpath(s.directory) == want:
                if s.auth is None:
                    return s.service_id, s.hostname, True
                hosts = sorted(set(c[0] + ".onion" for c in s.clients.values()))
                if len(hosts) == 1:
                    return s.service_id, hosts[0], True
                return s.service_id, None, False
        return None


def execute(case):
    from twisted.internet import protocol
    w = World(case)
    obs = w.obs
    w.logs.start()
    implicit = None
    try:
        ep = w.build()
        if obs.harness:
            return w
        obs.state_lines_at_refusal = _state_lines(w.tor.lines[obs.lines0:])
        if ep is None:
            w.step("construct-raised")
            return w
        if not w.cell.get("eph", True) and w.cell.get("dir") == "implicit":
            implicit = ep.hidden_service_dir
        if w.fault == ["lose", "before-listen"]:
            w.lose()
        factory = protocol.Factory()
        if w.fault[:3] == ["none", "twin", "first"]:
            w.twin_listen()
        try:
            d = ep.listen(factory)
        except Exception as e:      # noqa
            obs.listen_raised = e
            w.step("listen-raised")
            return w
        w.listen_deferred = d
        if w.fault == ["cancel", "timeout-in-descriptor-wait"]:
            d.addTimeout(600, w.reactor)        # the caller's own timeout, on the reactor listen() was given
        o = obs.outcome = w.aud.watch(d, "listen")
        if w.fault == ["cancel", "after-listen"]:
            w.cancel_listen("cancel() right after listen() returned")
        relisten_mode = None
        if "relisten" in w.fault:
            relisten_mode = w.fault[2] if w.fault[0] == "none" else "after-failed-listen"

        def snap(res):
            obs.open_when_listen_fired = w.open_ports()
            obs.at_fire = {"lost": bool(w.link is not None and w.link.lost),
                           "create_acked": _create_acked(w),
                           "own_uploaded_sent": obs.own_uploaded_sent,
                           "held": len(w.tor.held)}
            obs.lines_at_fire = w.armed_lines
            return res
        d.addBoth(snap)
        obs.steps.append(("listen-called", bool(o.fired), _create_acked(w)))
        if w.fault[:3] == ["none", "twin", "second"]:
            w.twin_listen()
        w.resolve_config()
        if obs.harness:
            return w
        w.step("config-resolved")
        hold = w.fault[:2] == ["none", "hold"]
        window = w.fault[:2] == ["none", "foreign-window"]
        svc = w.service()
        if (hold or window) and svc is None and len(w.tor.held) == 1:
            w.tor.release()             # what was withheld is Tor's refusal: nothing to announce
            w.step("released")
            hold = window = False
        if window:
            # Another onion service of the same Tor (re)publishes its descriptor while our creating command is still
            # unanswered: the client does not know its own address yet (ephemeral: no reply; filesystem: Tor writes
            # <dir>/hostname while it processes the SETCONF, i.e. the file is not there yet).  Nothing foreign may count.
            if len(w.tor.held) != 1:
                obs.harness = "creating command was not held: %r" % (w.tor.lines[-3:],)
                return w
            foreign = OT.KEYS.ed(78).service_id if len(svc[0]) == 56 else OT.KEYS.rsa(OT.CALLER_BASE + 1).service_id
            hidden = None
            if not w.cell.get("eph", True):
                hn = os.path.join(os.path.realpath(ep.hidden_service_dir), "hostname")
                if os.path.exists(hn):
                    hidden = (hn, hn + ".not-yet-written")
                    os.rename(*hidden)
            try:
                for dn in (7, 8):
                    if w.tor.hs_desc("UPLOAD", foreign, dn, descid=AO.descriptor_id(foreign, dn)):
                        obs.foreign_window_events += 1
                    w.step("window:foreign-upload:%d" % dn)
                if w.fault[2] == "failed":
                    for dn in (7, 8):
                        if w.tor.hs_desc("FAILED", foreign, dn, descid=AO.descriptor_id(foreign, dn), reason="UPLOAD_REJECTED"):
                            obs.foreign_window_events += 1
                        w.step("window:foreign-failed:%d" % dn)
                else:
                    if w.tor.hs_desc("UPLOADED", foreign, 7):
                        obs.foreign_window_events += 1
                    w.step("window:foreign-uploaded:7")
            finally:
                if hidden is not None:
                    os.rename(hidden[1], hidden[0])
            w.tor.release()
            w.step("released")
        if hold:
            if len(w.tor.held) != 1:
                obs.harness = "creating command was not held: %r" % (w.tor.lines[-3:],)
                return w
            # Tor does not announce uploads before it answered; safety only
            w.tor.hs_desc("UPLOAD", svc[0], 0, descid=AO.descriptor_id(svc[0], 0))
            w.step("held:upload")
            w.tor.hs_desc("UPLOADED", svc[0], 0)
            w.step("held:uploaded")
            w.tor.release()
            w.step("released")
        if svc is not None:
            addr, obs.expected_host, obs.expected_host_judged = svc
            obs.first_sid = addr
            foreign = OT.KEYS.ed(78).service_id if len(addr) == 56 else OT.KEYS.rsa(OT.CALLER_BASE + 1).service_id
            n = int(w.cell.get("ndirs") or 1)
            if w.fault[0] == "uploads-failed":
                n = w.fault[1]
            noise = bool(w.cell.get("noise"))
            if noise:
                w.tor.hs_desc("UPLOAD", foreign, 7, descid=AO.descriptor_id(foreign, 7))
                w.step("foreign:upload")
            for i in range(n):
                if w.tor.hs_desc("UPLOAD", addr, i, descid=AO.descriptor_id(addr, i)):
                    obs.own_upload_sent += 1
                w.step("upload:%d" % i)
            if noise:
                w.tor.hs_desc("UPLOADED", foreign, 7)
                w.step("foreign:uploaded")
            if w.fault == ["lose", "after-upload"]:
                w.lose()
                w.step("lost")
            if w.fault == ["cancel", "descriptor-wait"]:
                w.cancel_listen("cancel() inside the descriptor wait")
                w.step("cancelled")
            if w.fault == ["cancel", "timeout-in-descriptor-wait"] and not o.fired:
                obs.cancelled = {"bound": True, "create_acked": _create_acked(w), "how": "addTimeout(600) expiring inside the descriptor wait"}
                w.reactor.advance(601)
                w.step("timed-out")
            if w.fault[0] == "uploads-failed":
                variant = w.fault[2] if len(w.fault) > 2 and w.fault[2] != "relisten" else "rejected"
                for i in range(n):
                    reason = {"rejected": "UPLOAD_REJECTED", "unexpected": "UNEXPECTED", "no-reason": None,
                              "mixed": ("UNEXPECTED", None, "UPLOAD_REJECTED")[i % 3]}[variant]
                    if reason is None:
                        # (vf.refs.addonion always writes a REASON; this is the event without the optional field)
                        sent = w.tor.emit("HS_DESC", "FAILED %s UNKNOWN %s %s" % (addr, AO.hsdir_name(i), AO.descriptor_id(addr, i)))
                    else:
                        sent = w.tor.hs_desc("FAILED", addr, i, descid=AO.descriptor_id(addr, i), reason=reason)
                    if sent:
                        obs.own_failed_sent += 1
                        obs.failed_reasons.append(reason or "-")
                    w.step("failed:%d" % i)
            else:
                for i in range(n):
                    if w.tor.hs_desc("UPLOADED", addr, i):
                        obs.own_uploaded_sent += 1
                        obs.uploaded_for[addr] = obs.uploaded_for.get(addr, 0) + 1
                    w.step("uploaded:%d" % i)
        # ---- the twin endpoint's service gets its descriptor uploaded too (directories of its own); then its port is stopped
        if obs.twin is not None and obs.twin["outcome"] is not None:
            t = obs.twin
            tsid = w.twin_service()
            if tsid is not None and not t["outcome"].fired:
                w.tor.hs_desc("UPLOAD", tsid, 5, descid=AO.descriptor_id(tsid, 5))
                w.step("twin:upload")
                if w.tor.hs_desc("UPLOADED", tsid, 5):
                    t["uploaded_sent"] += 1
                w.step("twin:uploaded")
            if t["outcome"].fired and t["outcome"].ok:
                tp = w.twin_port()
                t["open_after_listen"] = [x for x in w.open_ports() if x[1] == tp]
                t["mapping"] = tor_mapping(w, tsid) if tsid else None
                try:
                    t["outcome"].value.stopListening()
                except Exception as e:      # noqa
                    t["stop_raised"] = repr(e)
                w.step("twin:stopped")
                t["open_after_stop"] = [x for x in w.open_ports() if x[1] == tp]
        # ---- success: the port object
        if o.fired == 1 and o.ok:
            port = o.value
            try:
                h = port.getHost()
                obs.host = (getattr(h, "onion_uri", None), getattr(h, "onion_port", None))
            except Exception as e:      # noqa
                obs.host = ("<getHost raised %s>" % type(e).__name__, None)
            # the history varies with cell and route, so every cell sees several of them (witnesses without the key: the longest)
            hist = PORT_HISTORIES[-1]
            if "history" in w.cell:
                hist = PORT_HISTORIES[(int(w.cell["history"]) + ROUTES.index(w.route)) % len(PORT_HISTORIES)]
            if relisten_mode in ("after-stop", "after-stop-port-taken", "after-service-removed", KEY_REUSED):
                hist = ("stop",)
            elif relisten_mode == "without-stop":
                hist = ()
            obs.port_history = []
            for k, op in enumerate(hist):
                before = w.open_ports()
                exc = None
                try:
                    r = port.stopListening() if op == "stop" else port.startListening()
                except Exception as e:      # noqa
                    exc, r = e, None
                fired = None
                if op == "stop" and r is not None and hasattr(r, "addBoth"):
                    box = []
                    r.addBoth(lambda x, box=box: box.append(x) or None)
                    w.step("stopped" if k == 0 else "port:stop#%d" % k)
                    fired = bool(box)
                else:
                    w.step("stopped" if k == 0 else "port:%s#%d" % (op, k))
                obs.port_history.append({"op": op, "before": before, "after": w.open_ports(), "raised": repr(exc) if exc else None,
                                         "returned_deferred_fired": fired})
            obs.open_after_stop = obs.port_history[0]["after"] if obs.port_history else None
        # ---- quiescence
        w.step("quiesce-0")
        w.reactor.advance(3600)
        w.step("quiesce-1")
        obs.open_at_end = w.open_ports()
        if relisten_mode is not None and o.fired:
            # a first listen() that failed on its own (e.g. Tor refuses the version) makes it the after-a-failure history
            relisten(w, ep, o, relisten_mode if o.ok else "after-failed-listen")
        return w
    finally:
        w.logs.stop()
        if obs.open_at_end is None:
            obs.open_at_end = w.open_ports()
        try:
            w.reactor.fireSystemEvent("shutdown")
        except Exception:       # noqa
            pass
        if implicit is not None:
            obs.implicit_dir_removed = not os.path.exists(implicit)
            shutil.rmtree(implicit, ignore_errors=True)
        if obs.hsdir is not None:
            top = obs.hsdir if w.cell.get("dir") == "existing" else os.path.dirname(obs.hsdir)
            shutil.rmtree(top, ignore_errors=True)
        for p in w.tmpfiles:
            try:
                os.unlink(p)
            except OSError:
                pass
        from txtorcon import endpoints as EP
        EP._global_tor = None


def tor_mapping(w, sid):
    """[(public, (host, port))] Tor currently forwards for service `sid`, None if Tor has no such service"""
    rec = w.tor.onions.get(sid)
    if rec is None:
        for x in w.tor.fs_services:
            if x.service_id == sid:
                rec = x
    if rec is None:
        return None
    return [(pp, _norm_target(pp, t)) for (pp, t) in rec.ports]


def other_endpoint_takes_the_key(w, ep, r):
    """a second endpoint object on the same TorConfig, built from the same cell (same private key), listens successfully: Tor now
    serves the onion address of the removed service again, forwarding to the OTHER endpoint's local port.  False = scenario not
    reached (r["skipped"] says why)"""
    from twisted.internet import protocol
    from txtorcon import TCPHiddenServiceEndpoint
    obs = w.obs
    variant = r["variant"] = w.fault[3] if len(w.fault) > 3 else "other-listening"
    accepted0 = len([e for e in w.tor.add_onion_log if e["code"] == 250])
    n_calls = len(obs.listen_calls)
    try:
        ep2 = w._build_ctor(TCPHiddenServiceEndpoint, ep._config, None)
        d_other = ep2.listen(protocol.Factory())
    except Exception as e:      # noqa
        r["skipped"] = "the other endpoint could not be started: %r" % (e,)
        return False
    oo = w.aud.watch(d_other, "other-endpoint-listen")
    w.step("relisten:other-endpoint-listen")
    accepted = [e for e in w.tor.add_onion_log if e["code"] == 250][accepted0:]
    if accepted and not oo.fired:
        addr = accepted[-1]["service_id"]
        w.tor.hs_desc("UPLOAD", addr, 0, descid=AO.descriptor_id(addr, 0))
        w.step("relisten:other-endpoint-upload")
        if w.tor.hs_desc("UPLOADED", addr, 0):
            obs.uploaded_for[addr] = obs.uploaded_for.get(addr, 0) + 1
        w.step("relisten:other-endpoint-uploaded")
    others = [(c["lp"].interface, c["lp"].port) for c in obs.listen_calls[n_calls:] if c["ok"]]
    if not (accepted and oo.fired and oo.ok):
        for lp in w.reactor.open_ports():
            if (lp.interface, lp.port) in others:
                lp.stopListening()
                lp.finish_stop()
        w.reactor.flush()
        r["skipped"] = "the other endpoint with the same key did not come up"
        return False
    sid = accepted[-1]["service_id"]
    r["other_listeners"] = others
    r["other_mapping"] = tor_mapping(w, sid)
    r["same_address_as_removed_service"] = bool(obs.first_sid == sid)
    if r["other_mapping"] is None or not r["same_address_as_removed_service"]:
        r["skipped"] = "Tor does not serve the removed service's address for the other endpoint"
        return False
    if variant == "other-port-stopped":
        try:
            oo.value.stopListening()
        except Exception as e:      # noqa
            r["skipped"] = "stopping the other endpoint's port raised %r" % (e,)
            return False
        w.step("relisten:other-endpoint-port-stopped")
        if [x for x in w.open_ports() if x in others]:
            r["skipped"] = "the other endpoint's listener stayed open"
            return False
    return True


def relisten(w, ep, o1, mode):
    """listen() once more on the same endpoint object; faults of the first attempt are over"""
    from twisted.internet import protocol
    obs = w.obs
    r = obs.relisten = {"mode": mode, "first_ok": bool(o1.ok), "raised": None, "fired": 0, "ok": None, "error": None, "at_fire": None,
                        "open_before": w.open_ports(), "open_after_listen": None, "mapping": None, "open_after_stop": None,
                        "open_at_end": None, "stop_raised": None, "new_listen_calls": None, "new_listeners": None, "lines": None}
    del w.reactor._refuse[:]            # the injected bind refusal concerned the first attempt
    # what belongs to the first listen() ends here
    w.replies1 = len(w.tor.replies)
    obs.first_listen_calls = len(obs.listen_calls)
    obs.first_create_seen = len(obs.create_seen)
    if w.link is None or w.link.lost:
        r["skipped"] = "control connection gone"
        return
    if mode == "after-stop-port-taken":
        # somebody else got the old local port in the meantime
        old = [c["lp"].port for c in obs.listen_calls if c["ok"]]
        if not old:
            r["skipped"] = "no first listener"
            return
        w.reactor.refuse_listen(old[0])
        r["old_port_refused"] = old[0]
    if mode in ("after-service-removed", KEY_REUSED):
        svc = w.service()
        if svc is None:
            r["skipped"] = "no service to remove"
            return
        sid = svc[0]
        try:
            if w.cell.get("eph", True):
                dr = o1.value.onion_service.remove()                     # DEL_ONION
            else:
                cfg = w.cfg if w.cfg is not None else ep._config
                cfg.HiddenServices.remove(o1.value.onion_service)        # the regular way through TorConfig
                dr = cfg.save()
            w.aud.watch(dr, "remove-service")
        except Exception as e:      # noqa
            r["skipped"] = "removing the service raised %r" % (e,)
            return
        w.step("relisten:service-removed")
        if tor_mapping(w, sid) is not None:
            r["skipped"] = "Tor still has the service after the removal"
            return
        obs.uploaded_for[sid] = 0       # uploads of the removed incarnation do not count for a new one
    if mode == KEY_REUSED:
        if not other_endpoint_takes_the_key(w, ep, r):
            return
    n_calls, n_lines = len(obs.listen_calls), len(w.tor.lines)
    try:
        d2 = ep.listen(protocol.Factory())
    except Exception as e:      # noqa
        r["raised"] = repr(e)
        return
    o2 = w.aud.watch(d2, "listen-again")

    def snap(res):
        svc = w.service()
        sid = svc[0] if svc else None
        r["at_fire"] = {"service_in_tor": bool(sid is not None and tor_mapping(w, sid) is not None),
                        "own_uploaded_sent": obs.uploaded_for.get(sid, 0) if sid else 0}
        return res
    d2.addBoth(snap)
    w.step("relisten:called")
    svc = w.service()
    if svc is not None and not o2.fired:
        addr = svc[0]
        w.tor.hs_desc("UPLOAD", addr, 0, descid=AO.descriptor_id(addr, 0))
        w.step("relisten:upload")
        if w.tor.hs_desc("UPLOADED", addr, 0):
            obs.uploaded_for[addr] = obs.uploaded_for.get(addr, 0) + 1
        w.step("relisten:uploaded")
    r["fired"], r["ok"] = o2.fired, o2.ok
    r["new_listen_calls"] = [(c["interface"], c["port"], c["ok"]) for c in obs.listen_calls[n_calls:]]
    r["new_listeners"] = [(c["lp"].interface, c["lp"].port) for c in obs.listen_calls[n_calls:] if c["ok"]]
    r["lines"] = w.tor.lines[n_lines:][-6:]
    ports = []
    if o2.fired and o2.ok:
        r["open_after_listen"] = w.open_ports()
        svc = w.service()
        r["mapping"] = tor_mapping(w, svc[0]) if svc else None
        ports.append(o2.value)
    elif o2.fired:
        r["error"] = "%s: %s" % (type(o2.value).__name__, o2.value)
    if mode == "without-stop" and o1.ok:
        ports.append(o1.value)
    if r.get("other_listeners"):
        # the other endpoint's listener is closed through the reactor (not through the code under test): from here on only the
        # listeners of the endpoint under observation can be open
        mine = [tuple(x) for x in (r["new_listeners"] or [])]
        for lp in w.reactor.open_ports():
            if (lp.interface, lp.port) in r["other_listeners"] and (lp.interface, lp.port) not in mine:
                lp.stopListening()
                lp.finish_stop()
        w.reactor.flush()
    for pt in ports:
        try:
            pt.stopListening()
        except Exception as e:      # noqa
            r["stop_raised"] = repr(e)
        w.step("relisten:stopped")
    r["open_after_stop"] = w.open_ports()
    w.reactor.advance(3600)
    w.step("relisten:quiesce")
    r["open_at_end"] = w.open_ports()


def _state_lines(lines):
    return [l for l in lines if l.partition(" ")[0].upper() in ("ADD_ONION", "SETCONF", "RESETCONF", "DEL_ONION")]


def _create_acked(w):
    """did Tor answer 250 to a creating command of this endpoint (and was the answer handed to the link)?"""
    for (line, code, parts) in w.tor.replies[w.replies0:w.replies1]:
        word = line.partition(" ")[0].upper()
        if w.is_twin_line(line):
            continue
        if code == 250 and (word == "ADD_ONION" or (word in ("SETCONF", "RESETCONF") and "hiddenservicedir" in line.lower())):
            return True
    return False


def _create_reply(w):
    """status code Tor gave to the (last) creating command, None if it never answered one"""
    code = None
    for (line, c, parts) in w.tor.replies[w.replies0:w.replies1]:
        word = line.partition(" ")[0].upper()
        if w.is_twin_line(line):
            continue
        if word == "ADD_ONION" or (word in ("SETCONF", "RESETCONF") and "hiddenservicedir" in line.lower()):
            code = c
    return code


# ---------------------------------------------------------------------------
# the oracle

def kind_of(cell):
    return "ephemeral" if cell.get("eph", True) else "filesystem"


def failing_step(w):
    """which step of listen() the failure of this run belongs to (structural; used in the mechanism key)"""
    obs, f = w.obs, w.fault
    if obs.cancelled is not None:
        c = obs.cancelled
        return "cancelled-" + ("during-descriptor-wait" if c["create_acked"] else "while-creating" if c["bound"] else "before-bind")
    if f[0] == "config":
        return "config"
    if f[0] == "bind":
        return "bind"
    if config_bootstrap_failed(w):
        return "config-bootstrap"
    code = _create_reply(w)
    acked = code == 250
    if f[0] == "uploads-failed":
        return "uploads-failed"
    if f[0] in ("close-on-line", "close-after-reply", "lose"):
        if not obs.listen_calls[:obs.first_listen_calls]:
            return "disconnect-before-bind"
        if acked:
            return "disconnect-during-descriptor-wait"
        return "disconnect-while-creating"
    if code is not None and code >= 400:
        return "create-rejected"
    if f[0] == "reject-line":
        return "command-rejected-after-creation" if acked else "command-rejected-before-creation"
    if w.cell.get("pre"):
        return "directory-already-configured"
    if not obs.create_seen[:obs.first_create_seen]:
        return "create-refused-by-client"
    return "other"


def config_bootstrap_failed(w):
    """the TorConfig the harness handed to the constructor failed to bootstrap before listen() fired"""
    cb = w.obs.config_bootstrap
    return bool(cb is not None and cb[0] == "err" and not cb[2])


def _norm_target(public, target):
    """(host, port) a Target means to Tor: absent = 127.0.0.1:<virtual port>, bare port = 127.0.0.1:port"""
    if target is None:
        return ("127.0.0.1", public)
    try:
        t = AO.parse_target(target)
    except AO.AddOnionError:
        return (target, None)
    if t[0] != "tcp":
        return (target, None)
    return (t[1] or "127.0.0.1", t[2])


def mapping_of(w, line):
    """[(public, (host, port))] the creating command asks for, for this endpoint's service; None if undecodable"""
    word, _, rest = line.partition(" ")
    if word.upper() == "ADD_ONION":
        try:
            a = AO.parse_add_onion(rest)
        except AO.AddOnionError:
            return None
        return [(p, _norm_target(p, t)) for (p, t) in a.ports]
    try:
        items = kvline.parse(rest)
    except kvline.KvError:
        return None
    want = os.path.realpath(w.ep.hidden_service_dir)
    cur = None
    out = None
    for k, v in items:
        kl = k.lower()
        if kl == "hiddenservicedir":
            cur = v
            if v is not None and os.path.realpath(v) == want:
                out = []
        elif kl == "hiddenserviceport" and cur is not None and os.path.realpath(cur) == want:
            toks = (v or "").split()
            if 1 <= len(toks) <= 2 and toks[0].isdigit():
                out.append((int(toks[0]), _norm_target(int(toks[0]), toks[1] if len(toks) == 2 else None)))
            else:
                out.append((v, None))
    return out


def error_matches(w, exc):
    from twisted.internet import error
    f = w.fault
    text = "%s %s" % (type(exc).__name__, exc)
    if w.cell.get("pre"):
        return True             # directory already configured: whatever error
    if w.obs.cancelled is not None:
        # the caller's own cancellation (addTimeout turns it into TimeoutError)
        return type(exc).__name__ in (("CancelledError", "TimeoutError") if f[:2] == ["cancel", "timeout-in-descriptor-wait"] else ("CancelledError",))
    if config_bootstrap_failed(w):
        want = w.obs.config_bootstrap[1]
        return exc is want or (type(exc) is type(want) and str(exc) == str(want)) or bool(str(want) and str(want) in str(exc))
    if f[0] == "config":
        if f[1] == "connection-refused":
            return isinstance(exc, error.ConnectError) or MARK in text
        return isinstance(exc, InjectedConfigError) or MARK in text
    if f[0] == "bind":
        return isinstance(exc, error.CannotListenError) or "CannotListenError" in text
    code = _create_reply(w)
    if code is not None and code >= 400 and f[0] in ("reject", "none", "reject-line"):
        # Tor's refusal itself: the protocol error carrying Tor's status code (not a text that merely quotes it)
        return type(exc).__name__ == "TorProtocolError" and getattr(exc, "code", None) == code
    if f[0] == "uploads-failed":
        # the failure of THIS service's descriptor wait
        return w.obs.first_sid is None or w.obs.first_sid in str(exc)
    return True


def is_wrapper(exc):
    """an aggregate / wrapping exception (twisted's FirstError and the like) instead of the error itself"""
    return hasattr(exc, "subFailure") or type(exc).__name__ in ("FirstError", "ExceptionGroup", "BaseExceptionGroup")


def judge(w, rec, case):
    bad, nontrivial = judge_first(w, rec, case)
    if w.obs.relisten is not None:
        bad = bad + judge_relisten(w, rec, case)
    if w.fault[:2] == ["none", "twin"]:
        bad = bad + judge_twin(w, rec, case)
    return bad, nontrivial


def judge_twin(w, rec, case):
    """a second (ephemeral, unauthenticated) endpoint made from the same Tor object: nothing was injected, so its listen() is judged like
    any fault-free listen()"""
    t = w.obs.twin
    cls = "ephemeral+second-endpoint-of-one-tor+listen-%s" % w.fault[2]
    bad = []

    def V(clause, detail):
        bad.append(clause)
        d = dict(detail)
        o = t["outcome"] if t else None
        d["twin"] = {"outcome": o.describe() if o is not None and o.fired else "pending", "at_fire": t and t["at_fire"], "mapping": t and t["mapping"],
                     "open_after_listen": t and t["open_after_listen"]}
        d["lines"] = w.tor.lines[w.obs.lines0:][-8:]
        rec.violation(clause, cls, d, case)

    if t is None:
        rec.count("twin_not_started")
        return bad
    rec.count("twin_runs")
    rec.count("twin:" + w.fault[2])
    if t["raised"]:
        V("listen-raised-synchronously", {"exc": t["raised"]})
        return bad
    o = t["outcome"]
    if not o.fired:
        V("listen-pending-at-quiescence", {})
        return bad
    if o.fired > 1:
        V("listen-fired-%d-times" % o.fired, {})
    if not o.ok:
        refused = [c for (l, c, pp) in w.tor.replies if l.startswith("ADD_ONION") and c >= 400 and ("Port=%d," % w.twin_public_port) in l]
        if refused and getattr(o.value, "code", None) == refused[-1]:
            rec.count("twin_refused_by_tor")       # Tor itself refused the twin's service: a failing run, nothing to judge here
            return bad
        V("listen-failed-without-fault", {"got": "%s: %s" % (type(o.value).__name__, o.value)})
        return bad
    rec.count("twin_successes_checked")
    af = t["at_fire"] or {}
    if not af.get("service_in_tor"):
        V("fired-before-service-exists", {})
    elif not af.get("own_uploaded_sent"):
        V("fired-before-descriptor-wait-over", {})
    tp = w.twin_port()
    if not t["open_after_listen"] or any(not is_loopback(i) for (i, pp) in t["open_after_listen"]):
        V("listen-resolved-without-open-listener" if not t["open_after_listen"] else "non-loopback-listener", {})
    elif t["mapping"] is not None:
        got = [(pp, tuple(x)) for (pp, x) in t["mapping"]]
        if got != [(w.twin_public_port, ("127.0.0.1", tp))]:
            V("port-mapping-mismatch", {"tor_forwards": got, "bound": tp})
    if t["stop_raised"]:
        V("stoplistening-raised", {"exc": t["stop_raised"]})
    if t["open_after_stop"]:
        V("stoplistening-left-listener-open", {"open": t["open_after_stop"]})
    return bad


def judge_relisten(w, rec, case):
    """the second listen() on the same endpoint object: every successful listen() has an open loopback listener on the port Tor
    forwards to, is not reported before the service exists and a descriptor of it was uploaded; afterwards nothing stays open"""
    obs, cell, r = w.obs, w.cell, w.obs.relisten
    kind = kind_of(cell)
    cls = "%s+listen-again-%s" % (kind, r["mode"])
    bad = []

    def V(clause, detail):
        bad.append(clause)
        d = dict(detail)
        d["second_listen"] = {k: r.get(k) for k in ("mode", "fired", "ok", "error", "new_listen_calls", "lines", "open_after_listen", "mapping", "at_fire",
                                                      "old_port_refused", "variant", "other_listeners", "other_mapping", "new_listeners")}
        rec.violation(clause, cls, d, case)

    if r.get("skipped"):
        rec.count("relisten_skipped")
        rec.seen("relisten_skipped_reasons", "%s: %s" % (r["mode"], str(r["skipped"])[:60]))
        return bad
    rec.count("relisten_runs")
    rec.count("relisten:" + r["mode"])
    if r["mode"] == KEY_REUSED:
        rec.count("key_reused:" + str(r.get("variant")))
        rec.count("key_reused_second_listen:" + ("pending" if not r["fired"] else "succeeded" if r["ok"] else "failed-cleanly" if not r["open_at_end"] else "failed"))
    if r["raised"]:
        V("listen-raised-synchronously", {"exc": r["raised"]})
        return bad
    if not r["fired"]:
        V("listen-pending-at-quiescence", {"open": r["open_at_end"]})
        return bad
    if r["fired"] > 1:
        V("listen-fired-%d-times" % r["fired"], {})
    if r["ok"]:
        rec.count("relisten_successes_checked")
        af = r["at_fire"] or {}
        if not af.get("service_in_tor"):
            V("fired-before-service-exists", {})
        elif not af.get("own_uploaded_sent"):
            V("fired-before-descriptor-wait-over", {})
        opened = r["open_after_listen"] or []
        if any(not is_loopback(i) for (i, p) in opened):
            V("non-loopback-listener", {"open": opened})
        if r["mode"] == KEY_REUSED:
            # another endpoint's service has the same address (and, in one variant, an open listener of its own): what THIS
            # listen() opened must be open and must be exactly what Tor forwards the public port to now
            rec.count("relisten_open_listener_checks")
            rec.count("key_reused_successes_checked")
            newl = [tuple(x) for x in (r["new_listeners"] or [])]
            if not [x for x in newl if x in [tuple(y) for y in opened]]:
                V("listen-resolved-without-open-listener", {"open": opened, "listeners_opened_by_second_listen": newl})
            elif r["mapping"] is not None:
                rec.count("relisten_mappings_compared")
                got = [(pp, tuple(t)) for (pp, t) in r["mapping"]]
                if len(got) != 1 or got[0] not in [(cell["public_port"], x) for x in newl]:
                    V("port-mapping-mismatch", {"tor_forwards": got, "listeners_opened_by_second_listen": newl, "open_listeners": opened})
        elif r["mode"] != "without-stop":
            rec.count("relisten_open_listener_checks")
            if not opened:
                V("listen-resolved-without-open-listener", {"open": opened})
            elif r["mapping"] is not None:
                rec.count("relisten_mappings_compared")
                want = [(cell["public_port"], tuple(x)) for x in opened]
                got = [(pp, tuple(t)) for (pp, t) in r["mapping"]]
                if len(got) != 1 or got[0] not in want:
                    V("port-mapping-mismatch", {"tor_forwards": got, "open_listeners": opened})
        else:
            # the first port is still open: what the SECOND listen() itself opened (if anything) must be what Tor forwards to
            rec.count("relisten_without_stop_checks")
            newl = [tuple(x) for x in (r["new_listeners"] or [])]
            if newl and r["mapping"] is not None:
                rec.count("relisten_mappings_compared")
                got = [(pp, tuple(t)) for (pp, t) in r["mapping"]]
                if len(got) != 1 or got[0] not in [(cell["public_port"], x) for x in newl]:
                    V("port-mapping-mismatch", {"tor_forwards": got, "listeners_opened_by_second_listen": newl, "open_listeners": opened})
        if r["stop_raised"]:
            V("stoplistening-raised", {"exc": r["stop_raised"]})
        if r["open_after_stop"]:
            V("stoplistening-left-listener-open", {"open": r["open_after_stop"]})
    else:
        rec.count("relisten_failures_checked")
        if r["open_at_end"]:
            V("listener-left-open-after-failure", {"open": r["open_at_end"], "error": r["error"]})
    return bad


def judge_first(w, rec, case):
    obs, cell, f = w.obs, w.cell, w.fault
    listen_calls = [c for c in obs.listen_calls[:obs.first_listen_calls] if w.twin_factory is None or c.get("factory") is not w.twin_factory]
    create_seen = [cs for cs in obs.create_seen[:obs.first_create_seen] if not w.is_twin_line(cs["line"])]
    kind = kind_of(cell)
    bad = []

    def V(clause, cls, detail):
        bad.append(clause)
        d = dict(detail)
        d.setdefault("steps", obs.steps[-12:])
        d.setdefault("lines", w.tor.lines[obs.lines0:][-8:])
        d.setdefault("outcome", obs.outcome.describe() if obs.outcome is not None else None)
        rec.violation(clause, cls, d, case)

    route = w.route
    rec.count("route:" + route)
    rec.count("fault:" + f[0])
    rec.count("lines_seen", len(w.tor.lines) - obs.lines0)
    if obs.log_errors:
        rec.count("logged_errors", len(obs.log_errors))
    if obs.implicit_dir_removed is not None:
        rec.count("implicit_dirs_removed_by_shutdown_trigger" if obs.implicit_dir_removed else "implicit_dirs_left_after_shutdown")

    # ---- every listener: loopback only --------------------------------------------------------
    for c in listen_calls:
        rec.count("listen_calls_seen")
        rec.count("listeners_checked_loopback")
        if not is_loopback(c["interface"]):
            V("non-loopback-listener", kind, {"interface": c["interface"], "port": c["port"]})
            break
    if len([c for c in listen_calls if c["ok"]]) > 1:
        V("more-than-one-listener", kind, {"calls": [(c["interface"], c["port"], c["ok"]) for c in listen_calls]})

    # ---- invalid combinations -------------------------------------------------------------------
    if case.get("invalid"):
        rec.count("refusals_before_start_checked")
        cls = case["invalid"] + "+" + route
        o = obs.outcome
        refused = obs.construct_exc is not None or obs.listen_raised is not None or (o is not None and o.fired and not o.ok)
        started = bool(listen_calls) or bool(_state_lines(w.tor.lines[obs.lines0:]))
        if obs.construct_exc is not None:
            rec.count("refused_by_constructor")
        elif refused:
            rec.count("refused_by_listen")
        sb = obs.started_before_refusal
        launched = False
        if sb is not None:
            rec.count("reactor_watched_for_starts_before_refusal")
            if sb["connects"] or sb["spawned"]:
                # a control connection was opened / a Tor launched (its control-port probe is the listenTCP call, if any)
                launched = True
                V("invalid-combination-refused-after-connect-or-launch", cls, {"started": sb, "exc": "%s: %s" % (
                    type(obs.construct_exc).__name__, obs.construct_exc)})
        if launched:
            return bad, True
        if not refused:
            V("invalid-combination-not-refused", cls, {"listen_calls": len(listen_calls)})
        elif started:
            V("invalid-combination-refused-after-start", cls,
              {"listen_calls": [(c["interface"], c["port"], c["ok"]) for c in listen_calls],
               "state_lines": _state_lines(w.tor.lines[obs.lines0:])})
        if obs.open_at_end:
            V("listener-left-open-after-failure", "invalid-combination+" + route, {"open": obs.open_at_end})
        return bad, True

    if obs.construct_exc is not None:
        V("valid-configuration-refused", "%s+%s" % (kind, route), {"exc": "%s: %s" % (type(obs.construct_exc).__name__, obs.construct_exc)})
        return bad, True
    if obs.listen_raised is not None:
        V("listen-raised-synchronously", "%s+%s" % (kind, route), {"exc": repr(obs.listen_raised)})
        return bad, True
    o = obs.outcome
    rec.count("listen_calls")

    # ---- the mapping sent to Tor names the port that was bound -----------------------------------
    bound = [c["lp"] for c in listen_calls if c["ok"]]
    for cs in ([] if cell.get("pre") else create_seen):
        m = mapping_of(w, cs["line"])
        if m is None:
            rec.count("creating_command_undecodable")
            continue
        rec.count("mappings_compared")
        want = [(cell["public_port"], (lp.interface, lp.port)) for lp in bound[:1]]
        if m != want:
            V("port-mapping-mismatch", kind, {"sent": m, "bound": want, "line": cs["line"][:200]})
        elif (bound[0].interface, bound[0].port) not in cs["open"] and obs.cancelled is None:
            # (after a cancellation by the caller the already queued creating command still goes out: not judged)
            V("port-mapping-names-closed-listener", kind, {"sent": m, "open": cs["open"]})

    # ---- classification of the run -----------------------------------------------------------------
    code = _create_reply(w)
    # cells the client itself may refuse while creating the service (after the bind): version 4, key of the other type
    may_refuse = cell.get("version") == 4 and cell.get("eph", True) or cell.get("key") == "wrong-type"
    client_refusal = bool(may_refuse and not create_seen and o.fired and not o.ok)
    fault_injected = f[0] != "none"
    # a service for the same directory is already in the config: whatever listen() does, it may not leak or hang
    pre = bool(cell.get("pre"))
    natural_failure = (code is not None and code >= 400) or client_refusal or (pre and o.fired and not o.ok) \
        or (config_bootstrap_failed(w) and not (o.fired and o.ok))

    # ---- listen() did not fire early -----------------------------------------------------------------
    hold = f[:2] == ["none", "hold"]
    window = f[:2] == ["none", "foreign-window"]
    tcls = kind + ("+foreign-events-before-creation-reply" if window else "")
    if window:
        rec.count("foreign_window_runs")
        rec.count("foreign_window_events_delivered", obs.foreign_window_events)
    # reply withheld: the service exists once the reply is out and an own UPLOADED may already have been counted
    legit = "released" if hold else "uploaded:0"
    if pre:
        rec.count("preconfigured_directory_runs")
    for (name, fired, acked) in ([] if pre else obs.steps):
        if name == legit or name in ("stopped", "quiesce-0", "quiesce-1"):
            break
        rec.count("not_fired_checks")
        if window and (name.startswith("window:") or name == "released"):
            rec.count("not_fired_nor_failed_on_foreign_events_checks")
        if fired and o.ok:
            V("fired-before-descriptor-wait-over" if acked else "fired-before-service-exists", tcls, {"at_step": name})
            break
        if fired and not o.ok and window and not (code is not None and code >= 400):
            V("failed-on-foreign-descriptor-events", kind + "+foreign-" + f[2] + "-before-creation-reply",
              {"at_step": name, "got": "%s: %s" % (type(o.value).__name__, o.value)})
            return bad, True
    if o.fired and o.ok and obs.at_fire is not None and not pre:
        if not obs.at_fire["create_acked"] or obs.at_fire["held"]:
            V("fired-before-service-exists", tcls, {"at_fire": obs.at_fire})
        elif not obs.at_fire["own_uploaded_sent"] and not hold:
            V("fired-before-descriptor-wait-over", tcls, {"at_fire": obs.at_fire})
    if o.fired > 1:
        V("listen-fired-%d-times" % o.fired, failing_step(w) + "+" + kind, {})

    if o.fired == 1 and o.ok:
        # ---- success run ------------------------------------------------------------------------------
        rec.count("success_runs")
        if f[0] == "uploads-failed" or f[0] in ("reject", "bind", "config"):
            V("listen-succeeded-despite-failure", failing_step(w) + "+" + kind, {"host": obs.host})
        if natural_failure:
            V("listen-succeeded-despite-failure", failing_step(w) + "+" + kind, {"host": obs.host, "tor_code": code})
        if obs.cancelled is not None:
            V("listen-succeeded-after-caller-cancelled", failing_step(w) + "+" + kind, {"cancelled": obs.cancelled, "host": obs.host})
        if config_bootstrap_failed(w):
            V("listen-succeeded-despite-failure", "config-bootstrap+" + kind,
              {"config_error": "%s: %s" % (type(obs.config_bootstrap[1]).__name__, obs.config_bootstrap[1]), "rejected_line": obs.rejected_line})
        rec.count("gethost_compared")
        uri, hport = obs.host
        if pre:
            rec.count("preconfigured_directory_success_judged_on_stop_only")
        elif obs.expected_host_judged:
            if uri != obs.expected_host:
                V("gethost-hostname-mismatch", kind + ("+auth" if cell["auth"] != "none" else ""), {"got": uri, "tor_assigned": obs.expected_host})
        else:
            rec.count("hostname_not_judged_multi_client_stealth")
        if hport != cell["public_port"] and not pre:
            V("gethost-port-mismatch", kind, {"got": hport, "public_port": cell["public_port"], "bound": [lp.port for lp in bound]})
        # ---- IListeningPort history: every stopListening() closes the local listener ------------------------------
        mapped = None
        for cs in create_seen:
            m = mapping_of(w, cs["line"])
            if m:
                mapped = m[0][1]
        sig = []
        for h in obs.port_history or []:
            op = h["op"]
            after_restart = "start" in sig
            second = bool(sig) and sig[-1] == "stop"
            sig.append(op)
            hcls = kind + ("+stop-after-restart" if (op == "stop" and after_restart and not second) else
                           "+repeated-stop" if (op == "stop" and second) else "")
            if h["raised"]:
                V("%slistening-raised" % op, hcls, {"exc": h["raised"], "history": sig})
                continue
            if op == "stop":
                rec.count("stop_checked")
                if h["before"]:
                    rec.count("stops_of_an_open_listener_checked")
                    if after_restart:
                        rec.count("stops_after_restart_checked")
                if h["returned_deferred_fired"] is False:
                    rec.count("stop_deferred_pending_at_quiescence")
                if h["after"]:
                    V("stoplistening-left-listener-open", hcls, {"open": h["after"], "history": list(sig)})
                    break
            else:
                rec.count("restarts_seen")
                if not h["after"]:
                    rec.count("restart_did_not_reopen_a_listener")
                else:
                    if any(not is_loopback(i) for (i, p) in h["after"]):
                        V("non-loopback-listener", kind + "+restart", {"open": h["after"]})
                    if len(h["after"]) == 1 and mapped is not None and tuple(h["after"][0]) == tuple(mapped):
                        rec.count("restart_reopened_the_port_tor_forwards_to")
                    else:
                        rec.count("restart_reopened_another_port_than_tor_forwards_to")     # counted, not judged
        rec.seen("port_histories", ",".join(sig))
        return bad, True

    # ---- failure / pending run ------------------------------------------------------------------------
    step = failing_step(w)
    cls = step + "+" + kind
    if not fault_injected and not natural_failure:
        if f[:2] == ["none", "hold"] and kind == "ephemeral":
            rec.count("held_reply_runs_judged_on_safety_only")
            return bad, True
        if not o.fired:
            V("listen-pending-at-quiescence", kind + "+" + route, {"own_uploaded_sent": obs.own_uploaded_sent})
        else:
            V("listen-failed-without-fault", kind + "+" + route, {})
        return bad, True
    rec.count("failure_runs")
    rec.count("failure_step:" + step)
    for rs in obs.failed_reasons:
        rec.count("own_failed_events:REASON=" + rs)
    if natural_failure and not fault_injected:
        rec.count("natural_refusals")
    rec.count("leak_checks_after_failure")
    if not o.fired:
        # still waiting at quiescence although the step can no longer complete; the listener it holds is part of the witness
        V("listen-pending-after-failure", cls, {"lost": bool(w.link is not None and w.link.lost), "open": obs.open_at_end})
        return bad, True
    rec.count("failure_errors_compared")
    rec.seen("failure_types", "%s: %s" % (step, type(o.value).__name__))
    if obs.cancelled is not None:
        rec.count("cancellations_checked")
        rec.count("cancelled:" + step)
    if is_wrapper(o.value):
        V("listen-failed-with-a-wrapped-error", cls, {"got": "%s: %s" % (type(o.value).__name__, str(o.value)[:300])})
    if config_bootstrap_failed(w):
        rec.count("config_bootstrap_failures_compared")
    if not error_matches(w, o.value):
        det = {"got": "%s: %s" % (type(o.value).__name__, o.value)}
        if config_bootstrap_failed(w):
            det["config_error"] = "%s: %s" % (type(obs.config_bootstrap[1]).__name__, obs.config_bootstrap[1])
            det["rejected_line"] = obs.rejected_line
        V("listen-failed-with-another-error", cls, det)
    if obs.open_at_end:
        V("listener-left-open-after-failure", cls, {"open": obs.open_at_end, "listen": o.describe()})
    elif obs.cancelled is not None:
        rec.count("instant_of_failure_not_judged_after_caller_cancel")     # the caller may have interrupted the wait for the close itself
    else:
        # ... and already at the instant listen() reported the failure (closing takes a reactor turn: the close has to be awaited)
        rec.count("open_listeners_checked_at_the_instant_of_failure")
        twin_p = w.twin_port()
        still = [x for x in (obs.open_when_listen_fired or []) if x[1] != twin_p]
        if still:
            V("listener-still-open-when-listen-failed", cls, {"open_at_that_instant": still, "listen": o.describe()})
    return bad, True


def run_case(case, rec):
    w = execute(case)
    obs = w.obs
    if obs.harness:
        rec.count("harness_stalls")
        rec.note("harness: %s in %r" % (obs.harness, {k: case[k] for k in ("route", "fault") if k in case}))
        rec.case(case, nontrivial=False)
        return w, ["harness"]
    bad, nontrivial = judge(w, rec, case)
    rec.case(case, nontrivial=nontrivial and (bool(obs.listen_calls) or bool(case.get("invalid")) or obs.outcome is not None))
    rec.seen("cells", _cell_sig(case))
    rec.seen("fault_points", "%s:%s" % (case["route"], ":".join(str(x) for x in (case.get("fault") or ["none"]))))
    if obs.outcome is not None:
        rec.seen("step_signatures", "%s|%s" % (kind_of(w.cell), ",".join("%s%s" % (st[0].split(":")[0], "!" if st[1] else "") for st in obs.steps)))
    return w, bad


def _cell_sig(case):
    if case.get("invalid"):
        return "invalid:" + case["invalid"]
    c = case["cell"]
    if c["eph"]:
        return "eph auth=%s v=%s key=%s hop=%s" % (c["auth"], c["version"], c["key"], c["hop"])
    return "fs auth=%s v=%s dir=%s gr=%s" % (c["auth"], c["version"], c["dir"], c["gr"])


# ---------------------------------------------------------------------------
# shards

def cell_route_pairs(raw_every=1):
    out = []
    for ci, cell in enumerate(all_cells()):
        for route in ROUTES:
            if route == "ctor-raw" and ci % raw_every:
                continue
            if supports(route, cell):
                out.append((cell, route))
    return out


def random_case(rnd):
    cells = all_cells()
    while True:
        cell = dict(rnd.choice(cells))
        route = rnd.choice(ROUTES)
        if supports(route, cell):
            break
    cell["public_port"] = rnd.choice([rnd.randint(1, 65535), 80, 443])
    cell["local_port"] = rnd.choice([None, rnd.randint(1024, 65535)])
    cell["first_port"] = rnd.randint(1024, 65000)
    cell["ndirs"] = rnd.randint(1, 4)
    cell["noise"] = rnd.random() < 0.5
    cell["history"] = rnd.randrange(len(PORT_HISTORIES))
    faults = base_faults(route, cell) + line_faults(rnd.randint(2, 30 if route in LAZY else 4), route)
    case = {"cell": cell, "route": route, "fault": rnd.choice(faults)}
    if rnd.random() < 0.6:
        case["chunking"] = gen.chunking(rnd)
    return case


def run_shard(spec, rec):
    quiet_logs()
    install_plugin_shortcut()
    OT.memoize_pem_loading()
    scratch_root()
    try:
        mode = spec["mode"]
        if mode == "enumerate":
            k, n = spec["part"], spec["parts"]
            pairs = cell_route_pairs(spec.get("raw_every", 1))
            routes = spec.get("routes")
            total = 0
            for i, (cell, route) in enumerate(pairs):
                if i % n != k or (routes and route not in routes):
                    continue
                base = {"cell": cell, "route": route, "fault": ["none"]}
                w, bad = run_case(base, rec)
                total += 1
                if total <= 1:
                    rec.sample(base)
                o = w.obs.outcome
                faults = base_faults(route, cell)[1:]
                if o is not None and o.fired and o.ok and w.obs.lines_at_fire:
                    nl = w.obs.lines_at_fire
                    if spec.get("max_lines") and route in LAZY:
                        # quick tier: every line of the short dialogues, a stride through the long (bootstrap) ones
                        ks = sorted(set(range(1, nl + 1)[::spec.get("stride", 1)]) | set(range(max(1, nl - 5), nl + 1)))
                        # (cancellation during the long bootstrap: a coarser stride, every line of the tail)
                        faults += line_faults(nl, route, ks, set(range(1, nl + 1)[::2 * spec.get("stride", 1)]) | set(range(max(1, nl - 5), nl + 1)))
                    else:
                        faults += line_faults(nl, route)
                    rec.count("dialogue_lines_enumerated", nl)
                else:
                    rec.count("baseline_did_not_succeed")
                    faults = [x for x in faults if x[0] in ("bind", "config", "lose")]
                for fz in faults:
                    run_case({"cell": cell, "route": route, "fault": fz}, rec)
                    total += 1
            rec.count("enumerated_cases", total)
            if not spec.get("max_lines") and not routes:
                rec.enumerated(spec["name"])
        elif mode == "invalid":
            for c in invalid_cases():
                run_case(dict(c), rec)
            rec.sample(invalid_cases()[0])
            rec.enumerated(spec["name"])
        elif mode == "random":
            for i in range(spec["n"]):
                rnd = gen.rnd_for(spec["seed"], PROPERTY, spec["shard"], i)
                case = random_case(rnd)
                rec.count("random_cases")
                run_case(case, rec)
                if i < 1:
                    rec.sample(case)
    finally:
        cleanup_root()


def replay(case, rec):
    quiet_logs()
    install_plugin_shortcut()
    OT.memoize_pem_loading()
    scratch_root()
    try:
        if "fault" in case:
            case["fault"] = list(case["fault"])
        run_case(case, rec)
    finally:
        cleanup_root()


def plan(tier, seed):
    specs = []
    name = "configuration cells x routes x fault points (every command line of the dialogue as a disconnect point)"
    if tier == "quick":
        for i in range(13):
            specs.append({"mode": "enumerate", "part": i, "parts": 13, "max_lines": True, "stride": 5, "raw_every": 3, "name": name})
        specs.append({"mode": "invalid", "name": "invalid option combinations declared by __init__ / parseStreamServer x routes"})
        for i in range(2):
            specs.append({"mode": "random", "n": 300})
    else:
        for i in range(32):
            specs.append({"mode": "enumerate", "part": i, "parts": 32, "name": name, "timeout_s": 3000})
        specs.append({"mode": "invalid", "name": "invalid option combinations declared by __init__ / parseStreamServer x routes"})
        for i in range(12):
            specs.append({"mode": "random", "n": 4000, "timeout_s": 3000})
    return specs
