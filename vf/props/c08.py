"""C08 - one notification per transition; built/closed waits complete exactly once.

Monitor: C07's set-up (real TorState over the real TorControlProtocol against FakeTor + TorSim)
plus listener doubles (ICircuitListener / IStreamListener implementations recording every call)
registered globally and per object - before the bootstrap, between any two events, after the
object appeared - and removed again; ``when_built()`` / ``when_closed()`` / ``Circuit.close()`` /
``Stream.close()`` / ``state.close_circuit`` / ``state.close_stream`` requested at every position
of the history (also twice), with TorSim answering the close commands in both orders of
"250 OK" vs "CLOSED/FAILED event" (the acknowledgement or the event is held back for a few
steps).  Oracle: TorSim computes for every event the notifications owed (``Ev.expect``); the
registration model below says who is owed them; Deferred outcomes are audited after every
delivery (safety) and at quiescence (every ack released, every requested close carried out).
See DESIGN.md section 2 / C08.
"""
from zope.interface import implementer

from .. import gen
from ..faketor import torsim

PROPERTY = "C08"
READY = True
LEVEL = "exploration"
TECHNIQUE = ("runtime monitoring: listener doubles + Deferred auditor on the real TorState/Circuit/Stream, reference "
             "life-cycle model (TorSim) computing the owed notifications, harness-owned order of close "
             "acknowledgement vs CLOSED event, operations spliced at every position of generated histories")
LEVEL_TEXT = ("Held on the executions observed: thousands (quick) to ~10^5 (thorough) histories with listener and wait "
              "operations spliced in; per delivery the observed listener calls are compared with the owed ones and "
              "every outstanding Deferred is audited; at quiescence every decided wait must have fired exactly once. "
              "Positions of single operations are enumerated completely for sampled base histories; histories "
              "themselves are sampled. Not a proof for histories/positions not generated.")
LEVEL_NOTE = ("Trusted: TorSim (model + owed notifications), FakeTor, reply encoder, the registration model in this "
              "file. Listeners are added between deliveries and - state-wide only - from inside another listener's "
              "circuit_new / stream_new callback; removal happens between deliveries and inside callbacks.")
RULE = ("a case = C07 population + history (<= 30 model steps) + a set of operations spliced between the steps: "
        "add global listener / arm a global listener to add another one state-wide from inside its next circuit_new or "
        "stream_new callback / listen on one object / unlisten / when_built / when_closed / Circuit.close / "
        "Stream.close / state.close_* (each close with an order: together | event first, ack held n steps | ack "
        "first, event n steps later; optionally IfUnused). Distinct = hash of the whole script. Non-trivial = at "
        "least one listener call or one Deferred outcome was compared with the reference.")
ASSUMPTIONS = [
    "C07's assumptions about what Tor emits",
    "what a NEWRESOLVE event notifies is unspecified: calls made while delivering it are not judged",
    "GUARD_WAIT and CONTROLLER_WAIT have no listener method: no notification is owed for them",
    "for objects first seen in the snapshot by a listener registered before the bootstrap, circuit_extend calls are not judged",
    "several notifications owed for one event (e.g. circuit_new + circuit_launched) are compared as a multiset; but at the "
    "instant circuit_built is delivered, and at the instant a when_built() requested from circuit_new fires, Circuit.path "
    "must hold exactly the hops of that BUILT line",
    "a SENTCONNECT on another circuit with no DETACHED before it: whether stream_attach is announced for it is not "
    "judged; the later transitions of the stream are",
    "listeners are ADDED between deliveries, with one exception: a state-wide listener double may call "
    "add_circuit_listener / add_stream_listener for another double from inside its circuit_new / stream_new callback, i.e. "
    "while the first line of a new object is being delivered (the earliest position 'after the object appeared'); the "
    "double added that way is not judged for the lines of that delivery and is owed every later transition of every "
    "live object, the new one included. Removal also happens inside callbacks: a listener double unlistens "
    "itself or another listener from the object while a line is being delivered. A listener nobody removed during "
    "that delivery is owed exactly one notification per transition of the line; the removed one is not judged for "
    "that line and is owed nothing afterwards",
    "a listener may raise from its callback (after the double recorded the call): every other registered listener is "
    "still owed exactly that notification, and the waits still complete",
    "a requester may return a pending Deferred from a callback on the Deferred it was handed, or cancel it: that "
    "wait itself is then not judged (cancel), the waits of all other requesters are",
    "when Tor answers a close command with an error while the object lives (552 for a CLOSESTREAM reason above 255, "
    "a generic 551 scripted for CLOSECIRCUIT) the wait may fail at once or stay open until the object is gone; it "
    "must not succeed earlier, must complete once the object is gone, and such failed requests are not compared "
    "with the others for 'share the outcome'",
    "the CLOSED Tor sends after a FAILED for the same stream is a reported transition: every state-wide stream "
    "listener (also one added after the FAILED) is owed exactly one stream_closed with the flags, and nothing else "
    "(no stream_new: no NEW was reported); listeners that were registered only on the forgotten Stream object, or "
    "had been unlistened from it, are not judged for that line",
    "a stream first heard of after the subscription window (NEW lost) is owed the notification of the reported "
    "status (+ stream_attach when that line names its circuit), never stream_new",
    "a close request is not made on a gone object whose id is in use again (Tor never re-uses ids that fast)",
    "values Deferreds fire with are not judged, only success/failure and the moment (exception: build_circuit(), see below)",
    "TorState.build_circuit() is requested at random positions; TorSim - like Tor - reports CIRC n LAUNCHED before it "
    "answers 250 EXTENDED n. One Circuit object per reported circuit may be created, the Deferred must fire once "
    "with that very object, and when_built() requested on it is judged like any other wait",
    "a keyword value Tor sent as QuotedString may be handed over in wire form or unescaped; for a line with a quoted "
    "value containing a blank the keyword arguments are not judged, the notification is",
    "the keyword arguments of circuit_closed/failed and stream_detach/closed/failed must be exactly the KEY=value "
    "fields of the reported line, each under its upper- and lower-case name, and nothing else",
]
TRUSTED_BASE = ["vf.faketor.torsim.TorSim (model, owed notifications, command handling)", "vf.faketor.core.FakeTor / Link",
                "vf.audit.Auditor", "registration model in vf/props/c08.py"]
ANCHORS = [
    "txtorcon.circuit:Circuit.update",
    "txtorcon.circuit:Circuit.update_path",
    "txtorcon.circuit:Circuit.when_built",
    "txtorcon.circuit:Circuit.when_closed",
    "txtorcon.circuit:Circuit.close",
    "txtorcon.circuit:Circuit.maybe_call_closing_deferred",
    "txtorcon.stream:Stream.update",
    "txtorcon.stream:Stream._notify",
    "txtorcon.stream:Stream.close",
    "txtorcon.stream:Stream.maybe_call_closing_deferred",
    "txtorcon.torstate:TorState.add_circuit_listener",
    "txtorcon.torstate:TorState.add_stream_listener",
    "txtorcon.torstate:TorState._maybe_create_circuit",
    "txtorcon.torstate:TorState.circuit_closed",
    "txtorcon.torstate:TorState.circuit_failed",
    "txtorcon.torstate:TorState.circuit_destroy",
    "txtorcon.util:SingleObserver.fire",
]
FLOORS = {
    "quick": {"evaluations": 350, "events_delivered": 4900, "listener_calls_compared": 2800, "kwargs_compared": 700,
              "waits_requested": 1400, "wait_outcomes_judged": 1400, "close_requests": 1050,
              "close_ack_before_event": 250, "close_event_before_ack": 250, "close_requested_twice": 350,
              "listeners_added_after_object": 700, "listeners_removed": 200, "repeat_groups_compared": 100,
              "histories_with_all_positions": 3,
              "closed_after_failed_events": 100, "first_seen_in_mid_life_events": 100,
              "final_lines_lacking_an_earlier_keyword": 500,
              "moved_without_detached": 30, "paths_compared_at_circuit_built": 100, "paths_compared_at_when_built": 25,
              "build_circuit_requests": 60, "build_circuit_results_compared": 60, "circuit_object_counts_compared": 350,
              "kwargs_compared_with_quoted_value": 25, "kwargs_not_judged_quoted_value_with_blank": 60,
              "unlistened_inside_callback_self": 50, "unlistened_inside_callback_another_listener": 10,
              "listener_exceptions_raised": 20, "close_requests_to_be_refused": 60, "waits_meddled_pending": 130,
              "waits_meddled_cancel": 70, "close_ack_late_then_event": 100,
              "listeners_added_inside_new_callback_circuit": 8, "listeners_added_inside_new_callback_stream": 12, "listeners_armed_to_add_inside_new_callback": 40,
              "reach:txtorcon.circuit:Circuit.close": 450, "reach:txtorcon.stream:Stream.close": 450,
              "reach:txtorcon.circuit:Circuit.when_built": 250, "reach:txtorcon.util:SingleObserver.fire": 2100,
              "reach:txtorcon.stream:Stream._notify": 2100},
    "thorough": {"evaluations": 10000, "events_delivered": 150000, "listener_calls_compared": 80000,
                 "waits_requested": 40000, "wait_outcomes_judged": 40000, "close_requests": 30000,
                 "close_ack_before_event": 8000, "close_event_before_ack": 8000, "close_requested_twice": 10000,
                 "listeners_added_after_object": 20000, "listeners_removed": 6000,
                 "histories_with_all_positions": 100},
}

N_LISTENERS = 3
KW_METHODS = ("circuit_closed", "circuit_failed", "stream_detach", "stream_closed", "stream_failed")


# ---------------------------------------------------------------------------
# listener doubles

KIND_OF = {"CircuitListener": "c", "StreamListener": "s"}


def wire_or_plain(v):
    """acceptable forms of a keyword value: as sent; a QuotedString also unescaped"""
    if v.startswith('"') and v.endswith('"') and len(v) >= 2:
        from ..refs import kvline
        try:
            return (v, kvline.unescape(v[1:-1]))
        except ValueError:
            return (v,)
    return (v,)


def make_listeners(log, raises, built_fired, drops, adds=None, ctx=None):
    peers = {}
    adds = [] if adds is None else adds

    def add_inside(okind, me, obj):
        """inside the circuit_new / stream_new callback of listener `me`: register another double
        state-wide ('start watching once the first one shows up')"""
        j, me.adding = me.adding, None
        if ctx is None or j in ctx.globals[okind] or j in ctx.added_inside[okind]:
            adds.append(("+", okind, me.idx, obj, j, False))
            return
        ctx.added_inside[okind].add(j)
        if okind == "c":
            ctx.state.add_circuit_listener(peers["c"][j])
        else:
            ctx.state.add_stream_listener(peers["s"][j])
        adds.append(("+", okind, me.idx, obj, j, True))
    from txtorcon.interface import ICircuitListener, IStreamListener

    @implementer(ICircuitListener)
    class CircuitListener(object):
        def __init__(self, idx):
            self.idx = idx
            self.raising = 0          # raise from the next n callbacks (after recording them)
            self.dropping = 0         # unlisten (self or the victim) from the object inside the next n callbacks
            self.victim = None
            self.adding = None        # index of the double to register state-wide inside the next circuit_new / stream_new

        def _after(self, obj):
            if self.dropping > 0:
                self.dropping -= 1
                target = self if self.victim is None else peers["c"][self.victim]
                try:
                    obj.unlisten(target)
                    done = True
                except ValueError:
                    done = False          # the target was not (or no longer) on this object
                drops.append(("c", self.idx, obj, target.idx, done))
            self._maybe_raise()

        def _maybe_raise(self):
            if self.raising > 0:
                self.raising -= 1
                raises.append((KIND_OF["CircuitListener"], self.idx))
                raise RuntimeError("listener double %d raises on purpose" % self.idx)

        def __repr__(self):
            return "<CL%d>" % self.idx

        def circuit_new(self, circuit):
            log.append(("c", self.idx, "circuit_new", circuit, None, None))
            if self.idx == 0:
                # a listener that waits for the circuit it has just been handed
                circuit.when_built().addCallbacks(
                    lambda c, o=circuit: built_fired.append((o, tuple(getattr(r, "id_hex", None) for r in o.path))),
                    lambda f: None)
            if self.adding is not None:
                add_inside("c", self, circuit)
            self._after(circuit)

        def circuit_launched(self, circuit):
            log.append(("c", self.idx, "circuit_launched", circuit, None, None))
            self._after(circuit)

        def circuit_extend(self, circuit, router):
            log.append(("c", self.idx, "circuit_extend", circuit, router, None))
            self._after(circuit)

        def circuit_built(self, circuit):
            log.append(("c", self.idx, "circuit_built", circuit,
                        ("path", tuple(getattr(r, "id_hex", None) for r in circuit.path)), None))
            self._after(circuit)

        def circuit_closed(self, circuit, **kw):
            log.append(("c", self.idx, "circuit_closed", circuit, None, kw))
            self._after(circuit)

        def circuit_failed(self, circuit, **kw):
            log.append(("c", self.idx, "circuit_failed", circuit, None, kw))
            self._after(circuit)

    @implementer(IStreamListener)
    class StreamListener(object):
        def __init__(self, idx):
            self.idx = idx
            self.raising = 0          # raise from the next n callbacks (after recording them)
            self.dropping = 0         # unlisten (self or the victim) from the object inside the next n callbacks
            self.victim = None
            self.adding = None        # index of the double to register state-wide inside the next circuit_new / stream_new

        def _after(self, obj):
            if self.dropping > 0:
                self.dropping -= 1
                target = self if self.victim is None else peers["s"][self.victim]
                try:
                    obj.unlisten(target)
                    done = True
                except ValueError:
                    done = False          # the target was not (or no longer) on this object
                drops.append(("s", self.idx, obj, target.idx, done))
            self._maybe_raise()

        def _maybe_raise(self):
            if self.raising > 0:
                self.raising -= 1
                raises.append((KIND_OF["StreamListener"], self.idx))
                raise RuntimeError("listener double %d raises on purpose" % self.idx)

        def __repr__(self):
            return "<SL%d>" % self.idx

        def stream_new(self, stream):
            log.append(("s", self.idx, "stream_new", stream, None, None))
            if self.adding is not None:
                add_inside("s", self, stream)
            self._after(stream)

        def stream_succeeded(self, stream):
            log.append(("s", self.idx, "stream_succeeded", stream, None, None))
            self._after(stream)

        def stream_attach(self, stream, circuit):
            log.append(("s", self.idx, "stream_attach", stream, circuit, None))
            self._after(stream)

        def stream_detach(self, stream, **kw):
            log.append(("s", self.idx, "stream_detach", stream, None, kw))
            self._after(stream)

        def stream_closed(self, stream, **kw):
            log.append(("s", self.idx, "stream_closed", stream, None, kw))
            self._after(stream)

        def stream_failed(self, stream, **kw):
            log.append(("s", self.idx, "stream_failed", stream, None, kw))
            self._after(stream)

    peers["c"] = [CircuitListener(i) for i in range(N_LISTENERS)]
    peers["s"] = [StreamListener(i) for i in range(N_LISTENERS)]
    return peers["c"], peers["s"]


# ---------------------------------------------------------------------------

class Wait(object):
    __slots__ = ("kind", "uid", "okind", "outcome", "pos", "requested", "nth", "order", "reported", "oid",
                 "meddle", "refused")

    def __init__(self, kind, okind, uid, oid, outcome, pos, requested):
        self.kind = kind            # when_built when_closed circuit.close stream.close state.close_circuit state.close_stream
        self.okind = okind          # "c" | "s"
        self.uid = uid
        self.oid = oid
        self.outcome = outcome
        self.pos = pos
        self.requested = requested  # structural description of the moment of the request
        self.nth = 1
        self.order = None
        self.reported = set()
        self.meddle = None          # what the requester did with its own Deferred: "pending" | "cancel"
        self.refused = False        # Tor was made to answer this request's command with an error


class Engine(object):
    """executes one script.  dry=True: model only (used by the generator to know, at each
    position, what exists and who is registered); dry=False: against the real txtorcon."""

    def __init__(self, case, rec=None, dry=False):
        self.case = case
        self.rec = rec
        self.dry = dry
        self.sim = torsim.TorSim(max_circuits=case["limits"][0], max_streams=case["limits"][1])
        self.globals = {"c": set(case.get("pre_listeners", {}).get("c", [])),
                        "s": set(case.get("pre_listeners", {}).get("s", []))}
        self.reg = {"c": {}, "s": {}}          # kind -> uid -> {listener idx: scope}
        self.removed = {"c": {}, "s": {}}      # kind -> uid -> set(listener idx)
        self.dead_reg = {"c": {}, "s": {}}     # kind -> uid -> registrations at the moment the object went
        self.seen_keys = {}                    # (kind, uid) -> keywords Tor has sent for the object so far
        self.built_fired = []                  # (circuit object, its path) at the instant a when_built() requested in circuit_new fired
        self.built_path = {}                   # uid -> hops of the first BUILT line Tor sent (or snapshot entry)
        self.builds = []                       # build_circuit() requests: {"o": Outcome, "uid": .., "followed": ..}
        self.build_uids = set()
        self.circuit_objects_created = 0       # by TorState, after the bootstrap
        self.circuit_first_sights = 0          # circuits Tor reported for the first time, after the bootstrap
        self.drops = []                        # (kind, actor, object, target, done) unlisten calls made inside callbacks
        # (self.drops also holds, in the order they happened, ("+", kind, actor, object, target, done): state-wide
        # registrations made inside circuit_new / stream_new)
        self.armed = {"c": {}, "s": {}}         # kind -> listener -> double it registers inside its next *_new callback
        self.added_inside = {"c": set(), "s": set()}   # doubles registered from inside a callback so far (real run)
        self.dropped_inside = False            # ... some during the delivery being judged
        self.raises = []                       # (kind, listener) each time a double raised, per delivery
        self.raise_uids = set()                # objects during whose notification a listener raised
        self.policies = {}
        self.timers = []
        self.collected = []
        self.waits = []
        self.objmap = {}
        self.rev = {}
        self.log = []
        self.pos = -1
        self.nviol = 0
        self.compared = 0
        self.close_log = {}                    # (okind, uid) -> ["req", "cmd:<order>", "event", ...]
        self.dry_queue = []
        self.sim.close_policy = self._policy
        self.sim.on_events.append(self.collected.extend)

    # ---- helpers ---------------------------------------------------------
    def count(self, name, n=1):
        if self.rec is not None:
            self.rec.count(name, n)

    def V(self, clause, cls, detail):
        self.nviol += 1
        if self.rec is not None:
            d = dict(detail)
            d["position"] = self.pos
            self.rec.violation(clause, cls, d, self.case)

    def _policy(self, kind, oid):
        """called by TorSim when a close command for a live object is about to be carried out"""
        pol = self.policies.pop((kind, oid), None)
        if pol is None:
            return None
        m = (self.sim.circuits if kind == "circuit" else self.sim.streams)[oid]
        self.close_log.setdefault((kind[0], m.uid), []).append("cmd:" + pol["order"])
        if pol["order"] == "ack-first":
            if pol.get("ack_hold"):
                self.timers.append([pol["ack_hold"] + 1, "ack"])
                self.count("close_ack_late_then_event")
            self.timers.append([pol.get("ack_hold", 0) + pol["hold"] + 1, "pending"])
            self.count("close_ack_before_event")
        elif pol["order"] == "event-first":
            self.timers.append([pol["hold"] + 1, "ack"])
            self.count("close_event_before_ack")
        else:
            self.count("close_together")
        return pol

    def model_obj(self, okind, uid):
        """(model object, live?)"""
        table = self.sim.circuits if okind == "c" else self.sim.streams
        for m in table.values():
            if m.uid == uid:
                return m, True
        dead = getattr(self.sim, "dead_circuits" if okind == "c" else "dead_streams", {})
        return dead.get(uid), False

    def live_uids(self, okind):
        table = self.sim.circuits if okind == "c" else self.sim.streams
        return [m.uid for m in table.values()]

    # ---- running -------------------------------------------------------------
    def start(self):
        case = self.case
        for a in case["pre"]:
            self.sim.apply(a)
        self.snapshot = self.sim.take_snapshot()
        if self.dry:
            self.sim.apply_unobserved(case.get("window", ()))
            from ..faketor.core import FakeTor
            self.tor = FakeTor()
            self.tor.authenticated = True
            self.sim.install(self.tor)
            self.tor.subscribed = {"CIRC", "STREAM"}
            self.ses = None
        else:
            self.clisteners, self.slisteners = make_listeners(self.log, self.raises, self.built_fired, self.drops,
                                                               self.drops, self)

            def before(state):
                for i in sorted(self.globals["c"]):
                    state.add_circuit_listener(self.clisteners[i])
                for i in sorted(self.globals["s"]):
                    state.add_stream_listener(self.slisteners[i])
            self.ses = torsim.SimSession(self.sim, boot=case["boot"], chunking=case["chunking"],
                                         before_bootstrap=before if (self.globals["c"] or self.globals["s"]) else None,
                                         window=case.get("window", ()))
            self.tor = self.ses.tor
            if self.ses.state is None or self.ses.link.exceptions:
                self.V("bootstrap-failed", "snapshot",
                       {"post_bootstrap": str(self.ses.boot_outcome.describe()), "exceptions": self.ses.link.exceptions,
                        "logged": self.ses.errors.take()[:3]})
                return False
            self.state = self.ses.state
            make = self.state.circuit_factory

            def counting_factory(*a, **kw):
                self.circuit_objects_created += 1
                return make(*a, **kw)
            self.state.circuit_factory = counting_factory       # (a documented hook of TorState)
        self.pos = "snapshot"
        self.collected.extend(self.snapshot)
        self.after_delivery("snapshot")
        return True

    def run(self):
        try:
            if not self.start():
                return self
            for i, item in enumerate(self.case["script"]):
                self.pos = i
                if "t" in item:
                    act = item["t"]
                    if not self.sim.legal(act):
                        self.count("steps_skipped_illegal")
                    else:
                        self.sim.apply(act)
                        self.pump("step")
                else:
                    self.do_op(item)
                self.tick()
            self.pos = "quiescence"
            self.flush()
            if not self.dry:
                self.judge_final()
        finally:
            if not self.dry and self.ses is not None:
                self.ses.close()
        return self

    def pump(self, label):
        if not self.dry:
            self.ses.link.pump()
            if self.ses.link.exceptions:
                ex = self.ses.link.exceptions[:]
                del self.ses.link.exceptions[:]
                self.V("exception-escaped", label, {"exceptions": ex})
        else:
            self.tor.process()
            self.tor.outbox = b""
        self.after_delivery(label)

    def tick(self):
        due = []
        for t in self.timers:
            t[0] -= 1
            if t[0] <= 0:
                due.append(t)
        for t in due:
            self.timers.remove(t)
            self.release(t[1])

    def release(self, what):
        if what == "ack":
            if self.sim.release_ack():
                if self.dry:
                    self.dry_drain()
                self.pump("ack-released")
        else:
            if self.sim.pending:
                self.sim.fire_pending(0)
                self.pump("requested-close-carried-out")

    def flush(self):
        for _ in range(200):
            if self.sim.held_acks:
                self.sim.release_ack()
                if self.dry:
                    self.dry_drain()
            elif self.sim.pending:
                self.sim.fire_pending(0)
            elif self.sim.zombies:
                self.sim.apply({"a": "zclose", "id": sorted(self.sim.zombies)[0]})
            else:
                break
            self.pump("flush")
        self.timers = []
        self.pump("flush")

    # ---- operations ------------------------------------------------------------
    def do_op(self, op):
        k = op["op"]
        if k == "gl+":
            okind, l = op["k"], op["l"]
            self.globals[okind].add(l)
            n = 0
            for uid in self.live_uids(okind):
                r = self.reg[okind].setdefault(uid, {})
                if l not in r:
                    r[l] = "global-added-after-object"
                    n += 1
            self.count("listeners_added_after_object", n)
            self.count("global_listener_adds")
            if not self.dry:
                if okind == "c":
                    self.state.add_circuit_listener(self.clisteners[l])
                else:
                    self.state.add_stream_listener(self.slisteners[l])
            return
        if k == "build":
            self.count("build_circuit_requests")
            if self.dry:
                self.dry_queue.append((self.sim.cmd_extendcircuit, "0"))
                self.dry_drain()
            else:
                o = self.ses.auditor.watch(self.state.build_circuit(), "build_circuit")
                self.builds.append({"o": o, "uid": None, "followed": False, "pos": self.pos})
            self.pump("build")
            return
        if k == "selfdrop":
            self.count("listeners_armed_to_unlisten_inside_callback")
            if not self.dry:
                lst = (self.clisteners if op["k"] == "c" else self.slisteners)[op["l"]]
                lst.dropping = int(op.get("n", 1))
                lst.victim = op.get("victim")
            return
        if k == "gl+in":
            # listener l (registered state-wide) will register double `add` state-wide from inside the next
            # circuit_new / stream_new it receives, i.e. while the first line of a new object is being delivered
            self.count("listeners_armed_to_add_inside_new_callback")
            self.armed[op["k"]][op["l"]] = op["add"]
            if not self.dry:
                (self.clisteners if op["k"] == "c" else self.slisteners)[op["l"]].adding = op["add"]
            return
        if k == "raise":
            self.count("listeners_armed_to_raise")
            if not self.dry:
                (self.clisteners if op["k"] == "c" else self.slisteners)[op["l"]].raising = int(op.get("n", 1))
            return
        okind, uid = op["k"], op["uid"]
        m, live = self.model_obj(okind, uid)
        obj = self.objmap.get((okind, uid)) if not self.dry else None
        if m is None or (not self.dry and obj is None):
            self.count("ops_skipped_no_object")
            return
        if k == "ol+":
            l = op["l"]
            if live:
                r = self.reg[okind].setdefault(uid, {})
                if l not in r:
                    r[l] = "per-object"
                    self.count("listeners_added_after_object")
            if not self.dry:
                obj.listen((self.clisteners if okind == "c" else self.slisteners)[l])
            return
        if k == "ol-":
            l = op["l"]
            r = self.reg[okind].get(uid, {})
            if l not in r:
                self.count("ops_skipped_not_registered")
                return
            scope = r.pop(l)
            self.removed[okind].setdefault(uid, set()).add(l)
            self.count("listeners_removed")
            if not self.dry:
                try:
                    obj.unlisten((self.clisteners if okind == "c" else self.slisteners)[l])
                except ValueError:
                    self.V("registered-listener-not-on-object", "unlisten," + scope,
                           {"object": [okind, m.id], "listener": l})
            return
        if k in ("when_built", "when_closed"):
            if self.dry:
                return
            requested = self.moment(okind, m, live)
            d = getattr(obj, k)()
            self.meddle(self.add_wait(k, okind, uid, m.id, d, requested), d, op.get("meddle"))
            return
        if k in ("cclose", "sclose"):
            table = self.sim.circuits if okind == "c" else self.sim.streams
            if not live and m.id in table:
                self.count("ops_skipped_id_in_use_again")
                return
            via = op.get("via", "object")
            if not live and via == "state":
                self.count("ops_skipped_no_object")
                return
            pol = {"order": op.get("order", "together"), "as": op.get("as", "CLOSED"), "hold": int(op.get("hold", 0)),
                   "ack_hold": int(op.get("ack_hold", 0))}
            refuse = bool(op.get("refuse")) and live
            will_act = live and not refuse and not m.marked and \
                not (op.get("if_unused") and okind == "c" and self.sim.streams_on(m.id))
            if will_act:
                self.policies[("circuit" if okind == "c" else "stream", m.id)] = pol
            if self.dry:
                if refuse:
                    return              # Tor refuses the command: nothing happens in the model
                line = "%d%s" % (m.id, " IfUnused" if op.get("if_unused") else "") if okind == "c" else "%d 1" % m.id
                self.dry_queue.append((self.sim.cmd_closecircuit if okind == "c" else self.sim.cmd_closestream, line))
                self.dry_drain()
                self.pump("close")
                return
            requested = self.moment(okind, m, live)
            name = ("circuit.close" if okind == "c" else "stream.close") if via == "object" else \
                   ("state.close_circuit" if okind == "c" else "state.close_stream")
            kw = {"IfUnused": True} if (op.get("if_unused") and okind == "c") else {}
            scripted = None
            if refuse and okind == "s":
                kw["reason"] = 300      # Tor parses the reason as one byte: 552 Unrecognized reason
            elif refuse:
                # no argument makes Tor refuse CLOSECIRCUIT for a circuit it has; what it can answer any
                # command with is the generic "551 Internal error" (4xx replies are outside C01's
                # "well-formed replies" and are not used)
                words = ["CLOSECIRCUIT", str(m.id)]
                scripted = (lambda line, w=words: line.split()[:2] == w,
                            (551, [("end", "Internal error")]), True)
                self.tor.scripted.append(scripted)
                self.count("closecircuit_refusals_scripted")
            if via == "object":
                d = obj.close(**kw)
            elif okind == "c":
                d = self.state.close_circuit(obj if op.get("by_object") else m.id, **kw)
            else:
                d = self.state.close_stream(obj, **kw)
            w = self.add_wait(name, okind, uid, m.id, d, requested)
            w.order = pol["order"] if will_act else None
            w.refused = refuse
            self.meddle(w, d, op.get("meddle"))
            self.count("close_requests")
            if refuse:
                self.count("close_requests_to_be_refused")
            self.close_log.setdefault((okind, uid), []).append("req" + ("(refused)" if refuse else ""))
            self.pump("close")
            if scripted is not None and scripted in self.tor.scripted and not self.sim.held_acks:
                self.tor.scripted.remove(scripted)      # no command was sent for this request
            return
        raise ValueError("unknown op %r" % (op,))

    def follow_builds(self):
        """match build_circuit() requests with the circuits Tor launched for them (in order); once the
        Deferred has handed out a Circuit, hold on to it: it must be THE object of that circuit and
        waits on it must complete"""
        by_ctl = sorted([c for c in list(self.sim.circuits.values()) + list(getattr(self.sim, "dead_circuits", {}).values())
                         if getattr(c, "by_controller", False) and c.uid not in self.build_uids], key=lambda c: c.uid)
        for b in self.builds:
            if b["uid"] is None and by_ctl:
                c = by_ctl.pop(0)
                b["uid"], b["id"] = c.uid, c.id
                self.build_uids.add(c.uid)
        for b in self.builds:
            o = b["o"]
            if b["uid"] is None or b["followed"] or not o.fired or not o.ok:
                continue
            b["followed"] = True
            m, live = self.model_obj("c", b["uid"])
            known = self.objmap.get(("c", b["uid"]))
            self.count("build_circuit_results_compared")
            if o.value is not known or getattr(o.value, "id", None) != b["id"]:
                self.V("build-circuit-result-is-not-the-circuit-object", "launched-before-reply",
                       {"circuit": b["id"], "returned_id": repr(getattr(o.value, "id", None)),
                        "same_object_as_listeners_saw": o.value is known})
            try:
                d = o.value.when_built()
            except Exception as e:      # noqa
                self.V("exception-escaped", "when_built-on-build_circuit-result", {"exception": repr(e)})
                continue
            self.add_wait("when_built", "c", b["uid"], b["id"], d, self.moment("c", m, live))

    def meddle(self, w, d, how):
        """what a requester may do with the Deferred it was handed: return a pending Deferred from a
        callback, or cancel it.  None of it may touch the other requesters' waits."""
        if not how:
            return
        from twisted.internet import defer
        w.meddle = how
        self.count("waits_meddled_" + how)
        if how == "pending":
            d.addCallback(lambda _: defer.Deferred())
        elif how == "cancel":
            d.cancel()

    def dry_drain(self):
        """dry run: the client has one command in flight; queued ones follow when the ack comes"""
        while self.dry_queue and not self.sim.held_acks:
            fn, line = self.dry_queue.pop(0)
            fn(line)

    def moment(self, okind, m, live):
        if okind == "c":
            if live:
                if m.marked:
                    return "live-close-pending"
                return "live-built" if m.status == "BUILT" else ("live-rebuilding" if m.ever_built else "live-building")
            return "after-%s%s" % (m.final_status, "" if m.ever_built or m.final_status == "CLOSED" else "-never-built")
        if live:
            return "live-close-pending" if m.marked else ("live-on-dead-circuit" if m.circ_dead else "live")
        return "after-" + m.final_status

    def add_wait(self, kind, okind, uid, oid, d, requested):
        o = self.ses.auditor.watch(d, kind)
        w = Wait(kind, okind, uid, oid, o, self.pos, requested)
        same = [x for x in self.waits if x.kind == kind and x.uid == uid]
        w.nth = len(same) + 1
        if kind in ("stream.close", "circuit.close") and same:
            self.count("close_requested_twice")
        self.waits.append(w)
        self.count("waits_requested")
        self.count("requested:" + kind)
        if self.rec is not None:
            self.rec.seen("wait_request_moments", "%s@%s" % (kind, requested))
        return w

    def added_inside_callback(self, okind, actor, j, evs):
        """double j was registered state-wide from inside actor's circuit_new / stream_new: like 'gl+' it is owed
        every later transition of every live object - including the one whose first line was being delivered;
        for the lines of the delivery it was registered in it is not judged"""
        self.armed[okind].pop(actor, None)
        self.globals[okind].add(j)
        scope = "global-added-inside-%s-of-another-listener" % ("circuit_new" if okind == "c" else "stream_new")
        n = 0
        for uid in self.live_uids(okind):
            r = self.reg[okind].setdefault(uid, {})
            if j not in r:
                r[j] = scope
                n += 1
        for ev in evs:
            if ("c" if ev.kind == "CIRC" else "s") == okind:
                self.unjudged.add((okind, j, ev.uid))
        self.count("listeners_added_inside_new_callback")
        self.count("listeners_added_inside_new_callback_" + ("circuit" if okind == "c" else "stream"))
        self.count("listeners_added_after_object", n)

    # ---- after every delivery -----------------------------------------------------
    def after_delivery(self, label):
        evs, self.collected[:] = list(self.collected), []
        # who is owed what
        expected = []              # (okind, listener, method, uid, extra, kw)
        unspecified = set()
        snapshot_uids = set()
        self.built_now = {}        # uid -> (hops of the BUILT line in this delivery, ev)
        self.ghost_ids = {}        # (okind, Tor's id) -> uid: events whose client-side object is created and dropped at once
        self.unjudged = set()      # (okind, listener, uid)
        for ev in evs:
            okind = "c" if ev.kind == "CIRC" else "s"
            self.count("events_delivered" if not ev.snapshot else "snapshot_entries")
            if ev.gone and (ev.first_sight or ev.ghost):
                self.ghost_ids[(okind, ev.oid)] = ev.uid
            if okind == "c" and ev.first_sight and not ev.snapshot:
                self.circuit_first_sights += 1
            if okind == "c" and ev.status == "BUILT":
                toks = ev.text.split()
                hops = tuple(h[:41] for h in toks[2].split(",")) if len(toks) > 2 and toks[2].startswith("$") else ()
                self.built_now[ev.uid] = (hops, ev)
                self.built_path.setdefault(ev.uid, hops)
            if ev.first_sight and not ev.snapshot and ev.status not in ("LAUNCHED", "NEW", "NEWRESOLVE"):
                self.count("first_seen_in_mid_life_events")
            if ev.ghost and not ev.first_sight:
                # trailing CLOSED of a FAILED/CLOSED pair: the Stream object the listeners knew is already
                # forgotten.  Owed: one stream_closed to every state-wide listener; not judged: listeners that
                # were registered on the forgotten object only, or had been unlistened from it.
                self.count("closed_after_failed_events")
                old = self.dead_reg[okind].get(ev.uid, {})
                gone_from = self.removed[okind].get(ev.uid, set())
                for l in set(old) | gone_from:
                    if l not in self.globals[okind] or l in gone_from:
                        self.unjudged.add((okind, l, ev.uid))
                self.reg[okind][ev.uid] = {l: "global,object-forgotten-at-FAILED" for l in self.globals[okind]
                                           if l not in gone_from}
            if ev.first_sight:
                self.reg[okind][ev.uid] = {l: ("registered-before-bootstrap" if ev.snapshot else "global-before-object")
                                           for l in self.globals[okind]}
            if ev.snapshot:
                snapshot_uids.add((okind, ev.uid))
            if ev.unspecified:
                unspecified.add((okind, ev.uid))
                self.count("events_unspecified")
            r = self.reg[okind].get(ev.uid, {})
            for l in r:
                for item in ev.expect:
                    extra = item[1] if item[0] in ("circuit_extend", "stream_attach") else None
                    kw = item[1] if item[0] in KW_METHODS else None
                    expected.append((okind, l, item[0], ev.uid, extra, kw, ev))
            if ev.gone:
                self.close_log.setdefault((okind, ev.uid), []).append("event")
        if self.dry:
            # prediction of the registrations armed listeners make inside circuit_new / stream_new
            for ev in evs:
                k = "c" if ev.kind == "CIRC" else "s"
                if ev.snapshot or not self.armed[k] or not any(x[0] in ("circuit_new", "stream_new") for x in ev.expect):
                    continue
                for actor in sorted(self.armed[k]):
                    if actor in self.reg[k].get(ev.uid, {}):
                        j = self.armed[k].pop(actor)
                        if j not in self.globals[k]:
                            self.added_inside_callback(k, actor, j, evs)
            for ev in evs:
                if ev.gone:
                    k = "c" if ev.kind == "CIRC" else "s"
                    self.dead_reg[k][ev.uid] = self.reg[k].pop(ev.uid, {})
            return
        # map new objects
        for m in self.sim.circuits.values():
            if ("c", m.uid) not in self.objmap:
                o = self.state.circuits.get(m.id)
                if o is not None and id(o) not in self.rev:
                    self.objmap[("c", m.uid)] = o
                    self.rev[id(o)] = ("c", m.uid)
        for m in self.sim.streams.values():
            if ("s", m.uid) not in self.objmap:
                o = self.state.streams.get(m.id)
                if o is not None and id(o) not in self.rev:
                    self.objmap[("s", m.uid)] = o
                    self.rev[id(o)] = ("s", m.uid)
        calls, self.log[:] = list(self.log), []
        drops, self.drops[:] = list(self.drops), []
        self.dropped_inside = False
        for entry in drops:
            if entry[0] == "+":
                _, okind, actor, obj, j, done = entry
                if done:
                    self.added_inside_callback(okind, actor, j, evs)
                else:
                    self.armed[okind].pop(actor, None)
                    self.count("adds_inside_callback_skipped_already_registered")
                continue
            (okind, actor, obj, target, done) = entry
            if not done:
                continue
            who = self.rev.get(id(obj))
            uid = who[1] if who and who[0] == okind else self.ghost_ids.get((okind, getattr(obj, "id", None)))
            self.dropped_inside = True
            self.count("unlistened_inside_callback" + ("_self" if actor == target else "_another_listener"))
            # the removed listener is not judged for this line and is owed nothing afterwards
            self.unjudged.add((okind, target, uid))
            if uid is not None:
                self.reg[okind].get(uid, {}).pop(target, None)
                self.removed[okind].setdefault(uid, set()).add(target)
        if self.raises:
            self.count("listener_exceptions_raised", len(self.raises))
            for ev in evs:
                self.raise_uids.add(("c" if ev.kind == "CIRC" else "s", ev.uid))
        self.judge_calls(evs, expected, calls, unspecified, snapshot_uids, label)
        del self.raises[:]
        for ev in evs:
            self.seen_keys.setdefault(("c" if ev.kind == "CIRC" else "s", ev.uid), set()).update(ev.keywords)
            if ev.gone and any(K not in ev.keywords for K in self.seen_keys[("c" if ev.kind == "CIRC" else "s", ev.uid)]):
                self.count("final_lines_lacking_an_earlier_keyword")
        for ev in evs:
            if ev.gone:
                k = "c" if ev.kind == "CIRC" else "s"
                self.dead_reg[k][ev.uid] = self.reg[k].pop(ev.uid, {})
        fired, self.built_fired[:] = list(self.built_fired), []
        for (obj, ids) in fired:
            who = self.rev.get(id(obj))
            if who is None or who[1] not in self.built_path:
                continue
            self.count("paths_compared_at_when_built")
            if ids != self.built_path[who[1]]:
                m, _ = self.model_obj("c", who[1])
                self.V("when-built-fired-before-hops-recorded",
                       "first-report-BUILT" if m is not None and m.first_seen.endswith("BUILT") else "built-after-earlier-lines",
                       {"circuit": getattr(obj, "id", None), "path_when_the_wait_fired": list(ids),
                        "hops_tor_reported_with_BUILT": list(self.built_path[who[1]])})
        self.follow_builds()
        self.judge_waits_safety(label)
        errs = self.ses.errors.take()
        if errs:
            self.count("errors_logged_by_txtorcon", len(errs))
            if self.rec is not None:
                for e in errs:
                    self.rec.seen("logged_error_kinds", "%s: %s" % (e[0], e[1][:50]))

    def judge_calls(self, evs, expected, calls, unspecified, snapshot_uids, label):
        want = {}
        kwreq = {}
        for (okind, l, method, uid, extra, kw, ev) in expected:
            if (okind, uid) in unspecified or (okind, l, uid) in self.unjudged:
                continue
            if method == "circuit_extend" and (okind, uid) in snapshot_uids:
                continue
            if method == "stream_attach":
                tm = self.sim.circuits.get(extra)
                extra = ("c", tm.uid) if tm is not None else ("c", None)
            k = (okind, l, method, uid, extra)
            want[k] = want.get(k, 0) + 1
            if kw is not None:
                kwreq[k] = (kw, ev)
        got = {}
        for (okind, l, method, obj, arg, kw) in calls:
            who = self.rev.get(id(obj))
            uid = who[1] if who and who[0] == okind else None
            if who is None:
                # an object made for this one line and dropped again (CLOSED after FAILED, or a stream
                # first heard of when it ended): identified by Tor's id
                uid = self.ghost_ids.get((okind, getattr(obj, "id", None)))
            if (okind, l, uid) in self.unjudged:
                self.count("calls_not_judged_listener_removed_or_object_forgotten")
                continue
            if (okind, uid) in unspecified:
                self.count("calls_not_judged_unspecified")
                continue
            if method == "circuit_extend" and (okind, uid) in snapshot_uids:
                self.count("calls_not_judged_snapshot_extend")
                continue
            extra = None
            if method == "circuit_built" and uid in self.built_now:
                hops, bev = self.built_now[uid]
                self.count("paths_compared_at_circuit_built")
                if tuple(arg[1]) != hops:
                    self.V("circuit-built-before-hops-recorded",
                           "first-report-BUILT" if bev.first_sight else "built-after-earlier-lines",
                           {"event": bev.text, "path_when_circuit_built_was_delivered": list(arg[1]), "listener": l})
            if method == "circuit_extend":
                extra = getattr(arg, "id_hex", repr(arg))
            elif method == "stream_attach":
                extra = self.rev.get(id(arg), ("c", "unknown-object"))
            k = (okind, l, method, uid, extra)
            got[k] = got.get(k, 0) + 1
            if kw is not None and k in kwreq:
                sent, ev = kwreq[k]
                self.count("kwargs_compared")
                if ev.quoted_space:
                    # the line carries a QuotedString with a blank inside: which keyword values a client
                    # that splits on blanks hands over is unspecified - the notification itself is owed
                    self.count("kwargs_not_judged_quoted_value_with_blank")
                    continue
                miss_up = [K for K, v in sent.items() if kw.get(K) not in wire_or_plain(v)]
                miss_lo = [K for K, v in sent.items() if kw.get(K.lower()) not in wire_or_plain(v)]
                if any(v.startswith('"') for v in sent.values()):
                    self.count("kwargs_compared_with_quoted_value")
                allowed = set(sent) | {K.lower() for K in sent}
                extra = sorted(k2 for k2 in kw if k2 not in allowed)
                if extra and not (miss_up or miss_lo):
                    # the flags of THIS line, not those of an earlier one
                    earlier = self.seen_keys.get((okind, uid), set())
                    stale = [k2 for k2 in extra if k2.upper() in earlier]
                    self.V("notification-keywords",
                           "%s,%s" % (method, "keyword-of-an-earlier-line" if stale else "keyword-tor-did-not-send"),
                           {"event": ev.text, "kwargs": dict(kw), "not_on_this_line": extra})
                if miss_up or miss_lo:
                    self.V("notification-keywords",
                           "%s,%s" % (method, "lower-case-missing" if not miss_up else
                                      "upper-case-missing" if not miss_lo else "both-cases-missing"),
                           {"event": ev.text, "kwargs": dict(kw), "missing_upper": miss_up, "missing_lower": miss_lo})
        self.compared += len(want) + len(got)
        if self.rec is not None:
            for (okind, l, method, uid, extra) in want:
                self.rec.seen("notifications_owed", "%s to listener %s" % (
                    method, self.reg[okind].get(uid, {}).get(l, "?")))
        self.count("listener_calls_expected", sum(want.values()))
        self.count("listener_calls_observed", sum(got.values()))
        self.count("listener_calls_compared", sum(min(want.get(k, 0), got.get(k, 0)) for k in want))
        if want == got:
            return
        texts = [e.text for e in evs]
        for k in sorted(set(want) | set(got), key=repr):
            w, g = want.get(k, 0), got.get(k, 0)
            if w == g:
                continue
            okind, l, method, uid, extra = k
            scope = self.reg[okind].get(uid, {}).get(l)
            if scope is None:
                scope = "unlistened" if l in self.removed[okind].get(uid, ()) else (
                    "object-unknown" if uid is None else "never-registered")
            ev = [e for e in evs if e.uid == uid and ("c" if e.kind == "CIRC" else "s") == okind]
            evname = "%s-%s%s%s%s" % (ev[0].kind, ev[0].status, "-after-FAILED" if ev[0].ghost else "",
                                      ",first-sight" if ev[0].first_sight else "",
                                      ",quoted-value-with-blank" if ev[0].quoted_space else "") if ev else "no-event"
            if g < w:
                clause = "notification-missing"
            elif w == 0:
                clause = "notification-unexpected"
            else:
                clause = "notification-duplicate"
            if self.raises:
                scope += ",a-listener-raised"
            if self.dropped_inside:
                scope += ",a-listener-unlistened-inside-the-delivery"
            self.V(clause, "%s,on=%s,listener=%s" % (method, evname, scope),
                   {"listener": l, "method": method, "object": [okind, uid], "argument": extra,
                    "owed": w, "observed": g, "events": texts, "delivery": label})

    # ---- waits ------------------------------------------------------------------
    def wait_class(self, w):
        """structural class of a wait: what was requested, when (relative to the life of its
        object) and - for close requests - which other close requests surround it"""
        return self._wait_class(w) + self._wait_circumstances(w)

    def _wait_circumstances(self, w):
        out = ""
        same = [x for x in self.waits if x.kind == w.kind and x.uid == w.uid and x is not w]
        if w.refused:
            out += ",command-refused"
        elif any(x.refused for x in same):
            out += ",other-request-refused"
        med = sorted({x.meddle for x in same if x.meddle})
        if med:
            out += ",other-requester-" + "+".join("returned-pending-deferred" if x == "pending" else "cancelled" for x in med)
        if (w.okind, w.uid) in self.raise_uids:
            out += ",a-listener-raised"
        return out

    def _wait_class(self, w):
        if w.kind not in ("circuit.close", "stream.close"):
            return "%s,requested=%s" % (w.kind, w.requested)
        same = [x for x in self.waits if x.kind == w.kind and x.uid == w.uid]
        i = same.index(w)
        if not w.requested.startswith("live"):
            extra = ""
            if w.kind == "circuit.close" and any(not x.requested.startswith("live") for x in same[:i]):
                extra = ",not-first-request-after-gone"
            return "%s,requested=%s%s" % (w.kind, w.requested.replace("-never-built", ""), extra)
        later = same[i + 1:]
        again = []
        if any(x.requested.startswith("live") for x in later):
            again.append("while-live")
        if any(not x.requested.startswith("live") for x in later):
            again.append("after-gone")
        extra = ",then-closed-again-" + "+".join(again) if again else ""
        return "%s,requested=live%s" % (w.kind, extra)

    def facts(self, w):
        m, live = self.model_obj(w.okind, w.uid)
        return m, live

    def judge_waits_safety(self, label):
        for w in self.waits:
            o = w.outcome
            if not o.fired or w.meddle == "cancel":
                continue
            m, live = self.facts(w)
            if o.fired > 1 and "twice" not in w.reported:
                w.reported.add("twice")
                self.V("wait-fired-more-than-once", self.wait_class(w), {"fired": o.fired, "wait": w.kind})
            if "early" in w.reported or "outcome" in w.reported:
                continue
            gone = not live
            if w.kind == "when_built":
                if o.ok and not m.ever_built:
                    w.reported.add("early")
                    self.V("when-built-succeeded-without-built", self.wait_class(w),
                           {"circuit": w.oid, "status": m.status, "delivery": label})
                elif not o.ok and (m.ever_built or not gone):
                    w.reported.add("outcome")
                    self.V("when-built-failed-wrongly", self.wait_class(w) + (",was-built" if m.ever_built else ",still-building"),
                           {"circuit": w.oid, "status": m.status, "error": str(o.value), "delivery": label})
            elif w.kind in ("when_closed", "circuit.close", "stream.close"):
                if not gone and not o.ok and getattr(o.value, "code", None) is not None:
                    # Tor answered this request's command with an error while the object lives:
                    # failing at once is as good as waiting for the object to go
                    if "refusal" not in w.reported:
                        w.reported.add("refusal")
                        self.count("close_waits_failed_on_refusal")
                elif not gone:
                    w.reported.add("early")
                    order = w.order or "none"
                    trace = self.close_log.get((w.okind, w.uid), [])
                    self.V("wait-completed-before-gone", "%s,order=%s" % (self.wait_class(w), order),
                           {"object": [w.okind, w.oid], "status": m.status, "outcome": str(o.describe()),
                            "delivery": label, "trace": trace})

    def judge_final(self):
        pending_cmd = getattr(self.ses.proto, "command", None)
        if pending_cmd is not None or self.sim.held_acks or self.sim.pending:
            self.V("no-quiescence", "command-unanswered", {"command": repr(pending_cmd)[:100]})
            return
        self.judge_waits_safety("quiescence")
        for b in self.builds:
            if b["uid"] is not None and b["o"].fired != 1:
                self.V("wait-never-completed" if not b["o"].fired else "wait-fired-more-than-once",
                       "build_circuit,launched-before-reply", {"circuit": b["id"], "fired": b["o"].fired})
        if self.circuit_objects_created != self.circuit_first_sights:
            self.V("circuit-objects-created",
                   "more-than-circuits-reported" if self.circuit_objects_created > self.circuit_first_sights
                   else "fewer-than-circuits-reported",
                   {"objects_created_after_bootstrap": self.circuit_objects_created,
                    "circuits_first_reported_after_bootstrap": self.circuit_first_sights,
                    "build_circuit_requests": len(self.builds)})
        else:
            self.count("circuit_object_counts_compared")
        groups = {}
        for w in self.waits:
            o = w.outcome
            m, live = self.facts(w)
            gone = not live
            if w.meddle == "cancel":
                self.count("waits_not_judged_cancelled_by_requester")
                continue
            self.count("wait_outcomes_judged")
            if self.rec is not None:
                self.rec.seen("wait_results", "%s@%s -> %s" % (
                    w.kind, w.requested, "pending" if not o.fired else ("ok" if o.ok else "err:" + type(o.value).__name__)))
            if w.kind == "when_built":
                decided = m.ever_built or gone
                if decided and not o.fired:
                    self.V("wait-never-completed", self.wait_class(w) + (",built" if m.ever_built else ",gone-unbuilt"),
                           {"circuit": w.oid, "final": getattr(m, "final_status", m.status)})
                elif o.fired and not decided:
                    pass    # reported by the safety check
                elif o.fired and decided and o.ok != bool(m.ever_built) and not w.reported:
                    self.V("when-built-wrong-outcome", self.wait_class(w), {"circuit": w.oid, "ever_built": m.ever_built,
                                                                           "outcome": str(o.describe())})
            elif w.kind in ("when_closed", "circuit.close", "stream.close"):
                if gone and not o.fired:
                    self.V("wait-never-completed", self.wait_class(w),
                           {"object": [w.okind, w.oid], "final": m.final_status,
                            "trace": self.close_log.get((w.okind, w.uid), [])})
            else:   # state.close_*: completes with the acknowledgement
                if not o.fired:
                    self.V("wait-never-completed", self.wait_class(w), {"object": [w.okind, w.oid]})
            if o.fired:
                groups.setdefault((w.kind, w.uid), []).append(w)
        for (kind, uid), ws in groups.items():
            if len(ws) < 2 or kind.startswith("state."):
                continue
            self.count("repeat_groups_compared")
            raced = [w for w in ws if not w.outcome.ok and w.requested.startswith("live")
                     and getattr(w.outcome.value, "code", None) is not None]
            if raced:
                # Tor answered this request's own command with an error: it reached Tor after Tor had
                # dropped the object by itself (552), or Tor refused it
                self.count("close_requests_raced_with_tor", len(raced))
                ws = [w for w in ws if w not in raced]
            oks = {bool(w.outcome.ok) for w in ws}
            if len(oks) > 1:
                bad = [w for w in ws if not w.outcome.ok]
                self.V("repeated-requests-differ",
                       "%s,failed-request=%s%s" % (kind, bad[0].requested.replace("-never-built", ""),
                                                   self._wait_circumstances(bad[0])),
                       {"object": [ws[0].okind, ws[0].oid],
                        "outcomes": [[w.requested, str(w.outcome.describe())[:120]] for w in ws]})
        for (okind, uid), tr in self.close_log.items():
            if self.rec is not None and "req" in tr:
                self.rec.seen("close_traces", ">".join(tr[:8]))


# ---------------------------------------------------------------------------
# case generation

ORDERS = [("together", 0), ("event-first", 0), ("event-first", 1), ("event-first", 2),
          ("ack-first", 0), ("ack-first", 1), ("ack-first", 3)]


def close_options(rnd, op):
    """the rarer ingredients of a close request: acknowledgement held back (and the event later
    still), a command Tor refuses, a requester that meddles with the Deferred it was handed"""
    r = rnd.random()
    if op.get("order") == "ack-first" and r < 0.35:
        op["ack_hold"] = rnd.choice([1, 2, 3])
    r = rnd.random()
    if r < 0.08:
        op["refuse"] = True
    elif r < 0.22 and op.get("via") == "object":
        op["meddle"] = rnd.choice(["pending", "pending", "cancel"])
    return op


def random_op(rnd, eng):
    """one operation that makes sense in the model state of the (dry) engine, or None"""
    sim = eng.sim
    live_c = list(sim.circuits.values())
    live_s = list(sim.known_streams().values())
    dead_c = list(getattr(sim, "dead_circuits", {}).values())[-3:]
    dead_s = list(getattr(sim, "dead_streams", {}).values())[-3:]
    r = rnd.random()
    if r < 0.03 and len(sim.circuits) < sim.max_circuits:
        return {"op": "build"}
    if r < 0.12:
        l = rnd.randrange(N_LISTENERS)
        victim = rnd.choice([None, None] + [i for i in range(N_LISTENERS) if i != l])
        return {"op": "selfdrop", "k": rnd.choice("cs"), "l": l, "n": rnd.choice([1, 2, 3, 4]), "victim": victim}
    if r < 0.145:
        return {"op": "raise", "k": rnd.choice("cs"), "l": rnd.randrange(N_LISTENERS), "n": rnd.choice([1, 1, 2, 3])}
    if 0.19 <= r < 0.22:
        # a state-wide listener that registers another double state-wide from inside circuit_new / stream_new
        okind = rnd.choice("ccs")
        actors = sorted(eng.globals[okind])
        targets = [j for j in range(N_LISTENERS) if j not in eng.globals[okind]]
        if actors and targets:
            return {"op": "gl+in", "k": okind, "l": rnd.choice(actors), "add": rnd.choice(targets)}
    if r < 0.22:
        return {"op": "gl+", "k": rnd.choice("cs"), "l": rnd.randrange(N_LISTENERS)}
    if r < 0.30:
        okind = rnd.choice("cs")
        pool = live_c if okind == "c" else live_s
        if not pool:
            return None
        return {"op": "ol+", "k": okind, "uid": rnd.choice(pool).uid, "l": rnd.randrange(N_LISTENERS)}
    if r < 0.42:
        cands = [(k, uid, l) for k in "cs" for uid, regs in eng.reg[k].items() for l in regs]
        if not cands:
            return None
        k, uid, l = rnd.choice(sorted(cands))
        return {"op": "ol-", "k": k, "uid": uid, "l": l}
    if r < 0.60:
        pool = live_c * 3 + dead_c
        if not pool:
            return None
        op = {"op": rnd.choice(["when_built", "when_built", "when_closed"]), "k": "c", "uid": rnd.choice(pool).uid}
        if rnd.random() < 0.1:
            op["meddle"] = rnd.choice(["pending", "cancel"])
        return op
    order, hold = rnd.choice(ORDERS)
    if r < 0.80:
        pool = live_c * 4 + dead_c
        if not pool:
            return None
        m = rnd.choice(pool)
        op = {"op": "cclose", "k": "c", "uid": m.uid, "via": "object" if rnd.random() < 0.8 else "state",
              "order": order, "hold": hold}
        if rnd.random() < 0.15:
            op["if_unused"] = True
        if rnd.random() < 0.5:
            op["by_object"] = True
        return close_options(rnd, op)
    pool = live_s * 4 + dead_s
    if not pool:
        return None
    m = rnd.choice(pool)
    return close_options(rnd, {"op": "sclose", "k": "s", "uid": m.uid, "via": "object" if rnd.random() < 0.8 else "state",
                               "order": order, "hold": hold, "as": rnd.choice(["CLOSED", "CLOSED", "FAILED"])})


def base_case(rnd, tier):
    pre_steps = rnd.choice([0, 2, 4, 8, 14, 25])
    limits = rnd.choice([[6, 8], [6, 8], [3, 6], [4, 3], [2, 2]])
    r = rnd.random()
    case = {"pre": None, "script": [], "boot": "ctor" if rnd.random() < 0.7 else "from_protocol",
            "chunking": [1 << 30] if r < 0.85 else ([1] if r < 0.9 else [rnd.randint(2, 40)]),
            "limits": limits, "pre_listeners": {"c": [], "s": []}}
    if case["boot"] == "ctor" and rnd.random() < 0.35:
        case["pre_listeners"] = {"c": sorted(rnd.sample(range(N_LISTENERS), rnd.randint(0, 2))),
                                 "s": sorted(rnd.sample(range(N_LISTENERS), rnd.randint(0, 2)))}
    sim = torsim.TorSim(max_circuits=limits[0], max_streams=limits[1])
    case["pre"] = sim.populate(rnd, pre_steps)
    case["window"] = []
    if rnd.random() < 0.3:
        sim.take_snapshot()
        case["window"] = sim.gen_window(rnd)
    return case


def queued_close_scenario(rnd, eng):
    """Stream.close() requested while the client's command queue is blocked by a held-back
    acknowledgement, and Tor - which has not seen the CLOSESTREAM yet - detaches that stream"""
    sim = eng.sim
    if sim.held_acks or sim.pending or eng.dry_queue:
        return None
    cands = [s for s in sim.streams.values() if s.circ and not s.circ_dead and not s.succeeded and not s.marked]
    if not cands:
        return None
    s = rnd.choice(cands)
    others = [("c", c) for c in sim.circuits.values() if not c.marked and c.id != s.circ] + \
             [("s", t) for t in sim.streams.values() if t is not s and not t.marked and not t.circ_dead]
    if not others:
        return None
    k, x = rnd.choice(others)
    return [{"op": "cclose" if k == "c" else "sclose", "k": k, "uid": x.uid, "via": "object",
             "order": "event-first", "hold": 3},
            {"op": "sclose", "k": "s", "uid": s.uid, "via": "object",
             "order": rnd.choice(["together", "ack-first", "event-first"]), "hold": rnd.choice([0, 1])},
            {"t": {"a": "detach", "id": s.id, "reason": rnd.choice(["TIMEOUT", "END"]), "remote": None}}]


def gen_case(rnd, tier="quick"):
    """random history with operations spliced in; built by a dry run so that every operation
    refers to things that exist at its position"""
    case = base_case(rnd, tier)
    n = rnd.choice([6, 10, 16, 24]) if tier == "quick" else rnd.choice([8, 16, 24, 30])
    p_op = rnd.choice([0.25, 0.4, 0.6])
    eng = Engine(case, dry=True)
    eng.start()
    script = case["script"]

    def put(item):
        eng.pos = len(script)
        script.append(item)
        if "t" in item:
            if eng.sim.legal(item["t"]):
                eng.sim.apply(item["t"])
                eng.pump("step")
        else:
            eng.do_op(item)
        eng.tick()

    last_close = None
    for i in range(n):
        while rnd.random() < p_op and len(script) < 80:
            if last_close is not None and rnd.random() < 0.3:
                op = dict(last_close)                 # the same request again ("also twice")
                if rnd.random() < 0.5:
                    op["order"], op["hold"] = rnd.choice(ORDERS)
                for k in ("ack_hold", "refuse", "meddle"):
                    op.pop(k, None)
                close_options(rnd, op)
                if rnd.random() < 0.6:
                    last_close = None
            else:
                op = random_op(rnd, eng)
                if op is None:
                    break
                if op["op"] in ("cclose", "sclose") and op.get("via") == "object":
                    last_close = op
            put(op)
        if rnd.random() < 0.06:
            for item in queued_close_scenario(rnd, eng) or []:
                put(item)
        act = eng.sim.propose(rnd)
        if act is None:
            break
        put({"t": {k: v for k, v in act.items() if k != "pending"}})
    # a few operations after the last event ("after the deciding events")
    for _ in range(rnd.choice([0, 1, 2])):
        op = random_op(rnd, eng)
        if op is not None:
            put(op)
    return case


OP_TEMPLATES = [
    [{"op": "when_built"}], [{"op": "when_built"}, {"op": "when_built"}], [{"op": "when_closed"}],
    [{"op": "cclose", "via": "object", "order": "ack-first", "hold": 1}],
    [{"op": "cclose", "via": "object", "order": "event-first", "hold": 1}],
    [{"op": "cclose", "via": "object", "order": "ack-first", "hold": 1}, {"op": "cclose", "via": "object", "order": "together", "hold": 0}],
    [{"op": "cclose", "via": "object", "order": "event-first", "hold": 2}, {"op": "cclose", "via": "object", "order": "together", "hold": 0}],
    [{"op": "when_closed"}, {"op": "cclose", "via": "state", "order": "ack-first", "hold": 0}],
    [{"op": "cclose", "via": "object", "order": "ack-first", "hold": 1, "ack_hold": 2},
     {"op": "cclose", "via": "object", "order": "together", "hold": 0, "meddle": "pending"}],
    [{"op": "cclose", "via": "object", "order": "ack-first", "hold": 1, "ack_hold": 2, "meddle": "cancel"},
     {"op": "cclose", "via": "object", "order": "together", "hold": 0}],
    [{"op": "cclose", "via": "object", "refuse": True}, {"op": "cclose", "via": "object", "order": "ack-first", "hold": 1}],
    [{"op": "raise", "l": 0, "n": 2}, {"op": "gl+", "l": 1}],
    [{"op": "selfdrop", "l": 0, "n": 3, "victim": None}],
    [{"op": "selfdrop", "l": 0, "n": 2, "victim": 1}],
    [{"op": "gl+", "l": 0}], [{"op": "ol+", "l": 1}], [{"op": "gl+", "l": 0}, {"op": "ol-", "l": 0}],
    [{"op": "ol+", "l": 2}, {"op": "ol-", "l": 2}],
    [{"op": "gl+", "l": 0}, {"op": "gl+in", "l": 0, "add": 2}],
]
S_TEMPLATES = [
    [{"op": "sclose", "via": "object", "order": "ack-first", "hold": 1}],
    [{"op": "sclose", "via": "object", "order": "event-first", "hold": 1, "as": "FAILED"}],
    [{"op": "sclose", "via": "object", "order": "ack-first", "hold": 1}, {"op": "sclose", "via": "object", "order": "together", "hold": 0}],
    [{"op": "sclose", "via": "state", "order": "event-first", "hold": 1}],
    [{"op": "sclose", "via": "object", "refuse": True}, {"op": "sclose", "via": "object", "order": "ack-first", "hold": 1}],
    [{"op": "sclose", "via": "object", "refuse": True}],
    [{"op": "sclose", "via": "object", "order": "ack-first", "hold": 1, "ack_hold": 1, "meddle": "pending"},
     {"op": "sclose", "via": "object", "order": "together", "hold": 0}],
    [{"op": "sclose", "via": "object", "order": "ack-first", "hold": 2, "meddle": "cancel"},
     {"op": "sclose", "via": "object", "order": "together", "hold": 0}],
    [{"op": "raise", "l": 0, "n": 2}, {"op": "gl+", "l": 1}],
    [{"op": "selfdrop", "l": 0, "n": 3, "victim": None}],
    [{"op": "selfdrop", "l": 0, "n": 2, "victim": 1}],
    [{"op": "gl+", "l": 0}], [{"op": "ol+", "l": 1}], [{"op": "gl+", "l": 0}, {"op": "ol-", "l": 0}],
    [{"op": "gl+", "l": 0}, {"op": "gl+in", "l": 0, "add": 2}],
]


def positional_cases(rnd, tier):
    """one base history; every template x every position (x every later position for the second
    operation of two-operation templates): complete enumeration of positions for that history"""
    case = base_case(rnd, tier)
    case["pre_listeners"] = {"c": [], "s": []}
    if case["boot"] == "ctor" and rnd.random() < 0.5:
        case["pre_listeners"] = {"c": [0, 1], "s": [0, 1]}      # (listener 0 comes before listener 1 on every object)
    sim = torsim.TorSim(max_circuits=case["limits"][0], max_streams=case["limits"][1])
    for a in case["pre"]:
        sim.apply(a)
    sim.take_snapshot()
    sim.apply_unobserved(case["window"])
    hist = sim.generate(rnd, rnd.choice([6, 8, 10]) if tier == "quick" else rnd.choice([8, 12, 16]))
    # the object the operations are about: a circuit / stream that lives through part of the history
    uids_c = sorted({m.uid for m in list(sim.circuits.values()) + list(getattr(sim, "dead_circuits", {}).values())})
    uids_s = sorted({m.uid for m in list(sim.streams.values()) + list(getattr(sim, "dead_streams", {}).values())})
    steps = [{"t": a} for a in hist]
    out = []
    for okind, uids, templates in (("c", uids_c, OP_TEMPLATES), ("s", uids_s, S_TEMPLATES)):
        if not uids:
            continue
        uid = rnd.choice(uids)
        tpl = rnd.choice(templates)
        ops = [dict(o, k=okind, uid=uid) for o in tpl]
        for p in range(len(steps) + 1):
            if len(ops) == 1:
                script = steps[:p] + [ops[0]] + steps[p:]
                out.append(dict(case, script=script))
            else:
                for q in range(p, len(steps) + 1):
                    script = steps[:p] + [ops[0]] + steps[p:q] + [ops[1]] + steps[q:]
                    out.append(dict(case, script=script))
    return out


# ---------------------------------------------------------------------------

def run_case(case, rec):
    eng = Engine(case, rec)
    eng.run()
    for k in ("circuit_id_reused", "stream_id_reused", "circuit_died_under_streams", "closecircuit_ifunused_kept",
              "failed_closed_pairs", "stream_first_seen_in_mid_life", "moved_without_detached",
              "unattached_by_remap_0", "objects_with_quoted_keywords"):
        if eng.sim.stats.get(k):
            rec.count(k, eng.sim.stats[k])
    rec.case(case, nontrivial=bool(eng.compared or eng.waits))
    return eng


def quiet_twisted_log():
    """failed acknowledgements nobody listens to (Stream.close drops the command's Deferred) would be
    printed as 'Unhandled error in Deferred' at garbage collection; they are not verdicts"""
    try:
        from twisted.logger import globalLogBeginner
        globalLogBeginner.beginLoggingTo([lambda event: None], redirectStandardIO=False, discardBuffer=True)
    except Exception:       # noqa
        pass


def run_shard(spec, rec):
    quiet_twisted_log()
    mode = spec.get("mode", "random")
    if mode == "random":
        for i in range(spec["n"]):
            rnd = gen.rnd_for(spec["seed"], PROPERTY, spec["shard"], i)
            case = gen_case(rnd, spec["tier"])
            run_case(case, rec)
            if i < 1:
                rec.sample({"boot": case["boot"], "pre_listeners": case["pre_listeners"],
                            "population_steps": len(case["pre"]), "script": case["script"][:14]})
    else:
        done = 0
        i = 0
        while done < spec["n"]:
            rnd = gen.rnd_for(spec["seed"], PROPERTY + "pos", spec["shard"], i)
            i += 1
            cases = positional_cases(rnd, spec["tier"])
            for case in cases:
                run_case(case, rec)
                done += 1
            rec.count("histories_with_all_positions")
        rec.enumerated("every position of the spliced operation(s) in each sampled base history")


def replay(case, rec):
    quiet_twisted_log()
    run_case(case, rec)


def plan(tier, seed):
    if tier == "quick":
        return [{"mode": "random", "n": 240} for _ in range(11)] + [{"mode": "positions", "n": 360} for _ in range(4)]
    return ([{"mode": "random", "n": 3000, "timeout_s": 3000} for _ in range(24)]
            + [{"mode": "positions", "n": 5000, "timeout_s": 3000} for _ in range(12)])
