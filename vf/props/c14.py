"""C14 - ADD_ONION carries exactly the requested service; key custody follows the request.

Monitor: the real EphemeralOnionService.create / EphemeralAuthenticatedOnionService.create /
Tor.create_onion_service, over a real TorConfig + TorControlProtocol, against
vf.faketor.oniontor.OnionTor.  Observed: every command line OnionTor receives (ADD_ONION,
DEL_ONION, anything else), snapshots of all string/bytes attributes of the service object at the
moment ADD_ONION is written / after its reply / after every HS_DESC event / after create() and
remove() fired.  Oracle: the independent ADD_ONION / DEL_ONION parser of vf.refs.addonion applied
to the wire lines, compared with the request (DESIGN.md section 2 / C14).
"""
import itertools

from .. import audit, gen, wire
from ..faketor import oniontor as OT
from ..faketor.core import connected_protocol
from ..refs import addonion as AO

PROPERTY = "C14"
READY = True
LEVEL = "exploration"
TECHNIQUE = ("runtime monitoring: wire recorder on a reference Tor (ADD_ONION/DEL_ONION lines decoded by an "
             "independent control-spec 3.27 parser) + attribute snapshots of the service object, complete "
             "enumeration of the option product")
LEVEL_TEXT = ("Held on the executions observed: the complete product route x version x key x detach x single-hop x "
              "auth x port-forms x waiting mode (about 16 000 cells, every cell run once against a fresh reference Tor), "
              "540 multi-creation histories re-using the caller's request objects, "
              "plus seeded random port/key/client strings on the thorough tier. Enumeration of the stated cells, "
              "not a proof for other port numbers, paths, names or keys.")
LEVEL_NOTE = ("Trusted: vf.refs.addonion (parser/reply builder, self-tested), vf.faketor.oniontor (acceptance rules "
              "modelled on control-spec 3.27 and Tor's rend/hs service checks; real RSA-1024 keys, fake ed25519 blobs), "
              "vf.faketor.core Link. Tor is spec-conforming: with DiscardPK it never sends the key.")
RULE = ("a case = one cell (route in {EphemeralOnionService.create, EphemeralAuthenticatedOnionService.create, "
        "Tor.create_onion_service} x version {2,3} x key {none, DISCARD, bare blob, type-prefixed blob, 5 CR/LF placements} "
        "x detach x single-hop x auth {none | AuthBasic with 0..3 clients with/without tokens} x 13 port lists of 1-4 mappings "
        "(int, (int,int), (int,'unix:/..'), (int,'ip:port'), 'N ip:port' string, 'N unix:/..' string; three lists put 2-3 mappings on ONE "
        "public port) x await_all_uploads; plus 10 unix-socket paths with braces / percent signs / other file-name punctuation x 3 port forms x route x version x "
        "key {none, DISCARD, bare, prefixed}; every DISCARD cell additionally against an OUT-OF-SPEC server that sends PrivateKey= despite "
        "DiscardPK (tagged input class)), "
        "create() then HS_DESC UPLOAD/UPLOADED for the service then remove(); plus histories of 2-3 creations on ONE connection and "
        "TorConfig that re-use the caller's request objects (the same ports list, AuthBasic instance and key string): two / three live "
        "services, re-creation after removal, creation after an ADD_ONION Tor refused (512), creation after a locally rejected CR/LF key - "
        "every ADD_ONION judged by the same per-creation oracle against what the caller asked for. Distinct = hash of the cell / history. "
        "Non-trivial = the ADD_ONION line was decoded and compared (or, for CR/LF keys, the absence of any "
        "ADD_ONION/foreign line was checked).")
ASSUMPTIONS = [
    "cells with unix-path-has-braces / -percent / -other-punctuation: the unix-socket target of a mapping (pair or string form) is a path "
    "containing '{' '}' '%' or other punctuation that is legal in file names (no space, no comma, no line break); 'correspond exactly' "
    "means the Port= entry carries that path character for character",
    "tagged server-variant input classes: opaque-caller-keys (the reference Tor accepts an undecodable caller KeyBlob verbatim, so that blobs "
    "whose first characters occur in 'RSA1024:' / 'ED25519-V3:' can be supplied; create() of an authenticated v2 service cannot complete there "
    "and is not judged) and auth-service-id-not-derived-from-key (the ServiceID returned for a BasicAuth service is not the hash of its key; "
    "HS_DESC events name the key-derived id); the per-ADD_ONION / DEL_ONION oracle is unchanged in both",
    "cells with clients_as hand the client list to AuthBasic as iter(...), a generator expression, zip(names, tokens) or a tuple: the "
    "request is the sequence of clients the iterable yields; cells with ports_as_iterator pass iter(ports): refusing it before sending "
    "(the API asks for a list / sequence) or sending exactly those mappings are both accepted",
    "key kind prefixed-other-type: a type-prefixed caller key whose type is not the one the requested version implies (ED25519-V3:<blob> "
    "with version 2 or with the version omitted - create() defaults to 2 -, RSA1024:<blob> with version 3): either the ADD_ONION carries the "
    "key exactly as given (the prefix states the type) or create() fails before anything but SETEVENTS is written; a re-prefixed key is neither",
    "cells with ports_as_tuple pass the mappings as a tuple instead of a list (the API takes any sequence); a tuple of two ints is two "
    "int-form mappings, as for a list",
    "cells with remove_plan: Tor answers DEL_ONION with 552 / 551 (scripted, the service stays in the reference Tor) and the caller calls "
    "remove() again; a remove() call may fail, but one that reports success must itself have sent DEL_ONION <ServiceID> and got 250, and the "
    "reference Tor must no longer hold the service. A remove() after a successful one is not generated (sending DEL_ONION again or "
    "answering from memory are both acceptable)",
    "cells with tor_best=ED25519-V3: the reference Tor answers NEW:BEST with a version-3 key and a 56-character ServiceID although the "
    "client noted version 2 (what current Tors do); address and DEL_ONION must be the ServiceID Tor assigned",
    "cells with async_port_lookup: stopListening() of the probe listener used to find a free local port completes on a later reactor turn "
    "(as on a real reactor) instead of at once",
    "cells with caller_mutates_after_call: the ports list (and the list the AuthBasic was built from) is overwritten right after create() / "
    "Tor.create_onion_service() returned, before any reply is delivered; 'requested' means the arguments as they were at call time",
    "cells with tor_non_anonymous drive txtorcon.Tor(reactor, proto, _non_anonymous=True/False).create_onion_service with single_hop "
    "False/None/True; the reference Tor is in the mode the Tor object states, so a request that does not match it is refused by Tor and "
    "only the command content is judged: the flags must follow the REQUEST",
    "Tor is spec-conforming: DiscardPK => no PrivateKey line; a supplied key is not echoed - except in the tagged input class "
    "out-of-spec-server-sends-key-despite-discardpk, where only key custody ('no key is ever stored') and the command content are judged",
    "for a requested version 2 with no key both NEW:BEST and NEW:RSA1024 are accepted as 'a new version-2 key' (BEST meant RSA1024 while v2 existed); version 3 must say NEW:ED25519-V3",
    "order of Port=/Flags=/ClientAuth= arguments and of the flags is free; a target may be written as port or 127.0.0.1:port",
    "for int-only port entries the local port is whatever the (fake) reactor handed out for a 127.0.0.1 listener",
    "BasicAuth with version 3, and BasicAuth with no clients, are refused by Tor: only the command content is judged there",
    "completion of create() is not part of this property (C15); it is counted",
    "whether a creation mutates the caller's request objects (ports list, AuthBasic tokens) is observed and counted "
    "(request_objects_mutated); the verdict comes from the ADD_ONION of the next creation that re-uses them",
]
TRUSTED_BASE = ["vf.refs.addonion (ADD_ONION/DEL_ONION parser, self-tested)",
                "vf.faketor.oniontor.OnionTor (reference server, self-tested; `cryptography` RSA)",
                "vf.faketor.core.Link (causal delivery)"]
ANCHORS = [
    "txtorcon.onion:_add_ephemeral_service",
    "txtorcon.onion:_validate_ports",
    "txtorcon.onion:_validate_ports_low_level",
    "txtorcon.onion:_validate_single_port_string",
    "txtorcon.onion:EphemeralOnionService.remove",
    "txtorcon.onion:EphemeralAuthenticatedOnionService.remove",
    "txtorcon.controller:Tor.create_onion_service",
]
FLOORS = {
    "quick": {"evaluations": 1500, "add_onion_decoded": 800, "del_onion_decoded": 600, "custody_snapshots": 3000,
              "crlf_cells_checked": 500, "hostname_compared": 600, "generated_key_retention_checked": 150,
              "history_creations": 120, "request_objects_compared": 300, "caller_mutated_arguments_after_call": 20, "async_port_lookup_turns": 5, "remove_calls_failed": 5,
              "unix_path_punctuation_cells": 60, "unix_path_punctuation_cells_compared": 60,
              "reach:txtorcon.onion:_add_ephemeral_service": 1000,
              "reach:txtorcon.onion:_validate_single_port_string": 1500},
    "thorough": {"evaluations": 3000, "add_onion_decoded": 2000, "del_onion_decoded": 1500, "custody_snapshots": 6000,
                 "crlf_cells_checked": 800, "hostname_compared": 1500, "generated_key_retention_checked": 300,
                 "random_cells": 1000, "history_creations": 120, "request_objects_compared": 300,
                 "unix_path_punctuation_cells": 60, "unix_path_punctuation_cells_compared": 60,
                 "reach:txtorcon.onion:_add_ephemeral_service": 2000},
}

# ---------------------------------------------------------------------------
# the cell space

ROUTES = ("eph", "auth", "tor")
KEY_KINDS = ("none", "discard", "bare", "prefixed",
             "crlf-lf-mid", "crlf-cr-mid", "crlf-inject", "crlf-trailing-lf", "crlf-prefixed-lf")
AUTHS = ("b0", "b1n", "b1t", "b2", "b3", "b3n")
PORT_LISTS = {
    "int": [80],
    "pair": [[80, 8080]],
    "str": ["80 127.0.0.1:8080"],
    "pair-unix": [[80, "unix:/var/run/app.sock"]],
    "str-unix": ["443 unix:/var/run/tls.sock"],
    "int+str": [80, "443 127.0.0.1:8443"],
    "pair+pair-unix": [[22, 2222], [80, "unix:/tmp/w.sock"]],
    "int+pair+str": [80, [81, 8081], "82 127.0.0.1:8082"],
    "str-unix+int+pair": ["9 unix:/a/b", 7, [65535, 1]],
    "pair-ip+int": [[8080, "192.168.1.5:80"], 443],
    # several mappings on ONE public port (Tor accepts that: it picks one target per connection)
    "dup:str+pair-unix": ["80 127.0.0.1:8080", [80, "unix:/run/web.sock"]],
    "dup:pair+str": [[80, 8080], "80 127.0.0.1:8081"],
    "dup3:int+pair+str+other": [443, [443, 8443], "443 127.0.0.1:9443", [22, 2222]],
}


# lists with int-form entries (the local port comes from a lookup through the reactor), two of them with several
INT_PORT_LISTS = {k: v for k, v in PORT_LISTS.items() if any(isinstance(p, int) for p in v)}
INT_PORT_LISTS["int+int"] = [80, 443]
INT_PORT_LISTS["int+pair+int+str"] = [80, [22, 2222], 8080, "25 127.0.0.1:2525"]


TUPLE_PORT_LISTS = {
    "int": [80], "pair": [[80, 8080]], "str": ["80 127.0.0.1:8080"],
    "int+int": [80, 443], "int+str": [80, "443 127.0.0.1:8443"], "int+pair": [80, [443, 8443]],
    "pair+pair-unix": [[22, 2222], [80, "unix:/tmp/w.sock"]], "str+str": ["80 127.0.0.1:8080", "81 unix:/run/x.sock"],
    "int+pair+str": [80, [81, 8081], "82 127.0.0.1:8082"], "int+int+int": [80, 443, 8080],
}


# unix-socket target paths with characters that are ordinary in file names but special to text templating
# (str.format braces, %-formatting, shell-ish punctuation): the Port= entry must carry the path exactly as requested
PUNCT_UNIX_PATHS = (
    "/run/{site}/web.sock",            # braces around a name
    "/run/{}/web.sock",                # empty braces
    "/srv/{0}/web.sock",               # braces around a number
    "/srv/{{blue}}/web.sock",          # doubled braces
    "/tmp/a{b.sock",                   # lone opening brace
    "/tmp/a}b.sock",                   # lone closing brace
    "/var/{0!r:>8}/{x[0].y}.sock",     # braces with '!', ':', '[', ']', '>'
    "/var/%s/app-%d.sock",             # percent signs
    "/var/%(name)s/100%.sock",
    "/run/u~1/app@host+1$RUN.sock",    # other punctuation
)
PUNCT_PORT_FORMS = ("pair-unix", "str-unix", "str-unix+pair")


def punct_ports(form, path):
    if form == "pair-unix":
        return [[80, "unix:" + path]]
    if form == "str-unix":
        return ["80 unix:" + path]
    return ["80 unix:" + path, [443, 8443]]


_PLAIN_PATH = frozenset("abcdefghijklmnopqrstuvwxyzABCDEFGHIJKLMNOPQRSTUVWXYZ0123456789/._-")


def unix_path_class(ports):
    """structural class of the unix-socket target paths of a request: which kinds of characters outside
    [A-Za-z0-9/._-] they contain ('' if none / no unix target)"""
    out = set()
    for p in ports:
        loc = None
        if isinstance(p, (list, tuple)) and len(p) == 2 and isinstance(p[1], str):
            loc = p[1]
        elif isinstance(p, str) and " " in p:
            loc = p.split(" ", 1)[1]
        if not loc or not loc.startswith("unix:"):
            continue
        odd = set(loc[5:]) - _PLAIN_PATH
        if odd & set("{}"):
            out.add("braces")
        if "%" in odd:
            out.add("percent")
        if odd - set("{}%"):
            out.add("other-punctuation")
    return "+".join(sorted(out))


def cookie(i):
    return OT.client_cookie("vf-c14-client-%d" % i)


def auth_clients(kind):
    """JSON-able client list: name | [name, token]"""
    return {
        "b0": [],
        "b1n": ["bob"],
        "b1t": [["bob", cookie(1)]],
        "b2": ["alice", ["bob", cookie(2)]],
        "b3": [["carol", cookie(3)], "dave", ["erin", cookie(4)]],
        "b3n": ["u1", "u-2", "u_3"],
        "b3t": [["x1", cookie(5)], ["x2", cookie(6)], ["x3", cookie(7)]],
    }[kind]


ADV_KEY_KINDS = ("bare-adv", "prefixed-adv")      # caller blobs whose first characters occur in the type prefix
SMALL_PORTS = ("str", "int+pair+str")


def all_cells():
    for route in ROUTES:
        auths = AUTHS if route == "auth" else (None,)
        for version, key, detach, single, a, pl, aw in itertools.product(
                (2, 3), KEY_KINDS, (False, True), (False, True), auths, sorted(PORT_LISTS), (False, True)):
            yield {"route": route, "version": version, "key": key, "detach": detach, "single_hop": single,
                   "auth": a, "clients": auth_clients(a) if a else None, "ports_id": pl,
                   "ports": PORT_LISTS[pl], "await_all": aw}
        # caller keys with adversarial first characters (server variant: opaque caller keys)
        for version, key, adv, detach, a, pl in itertools.product(
                (2, 3), ADV_KEY_KINDS, range(len(ADV_HEADS[2])), (False, True), auths, SMALL_PORTS):
            yield {"route": route, "version": version, "key": key, "adv": adv, "detach": detach, "single_hop": False,
                   "auth": a, "clients": auth_clients(a) if a else None, "ports_id": pl,
                   "ports": PORT_LISTS[pl], "await_all": False, "server_variant": "opaque-caller-keys"}
    # server variant: the ServiceID of a BasicAuth service is not derived from its key
    for key, detach, a, pl, aw in itertools.product(
            ("none", "bare", "prefixed"), (False, True), ("b1n", "b1t", "b2", "b3", "b3n"), SMALL_PORTS, (False, True)):
        yield {"route": "auth", "version": 2, "key": key, "detach": detach, "single_hop": False,
               "auth": a, "clients": auth_clients(a), "ports_id": pl, "ports": PORT_LISTS[pl], "await_all": aw,
               "server_variant": "auth-service-id-not-derived-from-key"}
    # the client list handed to AuthBasic as a single-pass iterable (iterator, generator, zip) or a tuple
    for a, how, detach, key in itertools.product(("b1n", "b1t", "b2", "b3", "b3n", "b3t"), ("iter", "generator", "tuple", "zip"),
                                                 (False, True), ("none", "bare")):
        cl = auth_clients(a)
        if how == "zip" and not all(isinstance(c, list) for c in cl):
            continue
        yield {"route": "auth", "version": 2, "key": key, "detach": detach, "single_hop": False, "auth": a, "clients": cl,
               "ports_id": "str", "ports": PORT_LISTS["str"], "await_all": False, "clients_as": how}
    # the ports handed over as a one-shot iterator (the API asks for a list / sequence)
    for route, pl in itertools.product(ROUTES, ("int", "str", "int+pair+str", "pair+pair-unix")):
        a = "b1n" if route == "auth" else None
        yield {"route": route, "version": 2, "key": "none", "detach": False, "single_hop": False, "auth": a,
               "clients": auth_clients(a) if a else None, "ports_id": pl, "ports": PORT_LISTS[pl], "await_all": False,
               "ports_as_iterator": True}
    # a type-prefixed caller key whose type disagrees with the requested / omitted version (create() defaults to 2)
    for route, (version, omitted), detach, pl in itertools.product(
            ROUTES, ((2, False), (2, True), (3, False)), (False, True), SMALL_PORTS):
        a = "b1n" if route == "auth" else None
        yield {"route": route, "version": version, "key": "prefixed-other-type", "detach": detach, "single_hop": False,
               "auth": a, "clients": auth_clients(a) if a else None, "ports_id": pl, "ports": PORT_LISTS[pl],
               "await_all": False, "version_omitted": omitted}
    # the port mappings given as a TUPLE (of every length, in particular exactly two entries)
    for route, version, pl in itertools.product(ROUTES, (2, 3), sorted(TUPLE_PORT_LISTS)):
        a = "b1n" if route == "auth" else None
        yield {"route": route, "version": version, "key": "none", "detach": False, "single_hop": False,
               "auth": a, "clients": auth_clients(a) if a else None, "ports_id": pl, "ports": TUPLE_PORT_LISTS[pl],
               "await_all": False, "ports_as_tuple": True}
    # removal refused by Tor (552 Unknown Onion Service id / 551), the caller calls remove() again
    for route, version, key, plan in itertools.product(
            ROUTES, (2, 3), ("none", "bare"), (["552", "ok"], ["551", "ok"], ["552", "551", "ok"], ["552", "552"])):
        if route == "auth" and version == 3:
            continue
        a = "b2" if route == "auth" else None
        yield {"route": route, "version": version, "key": key, "detach": False, "single_hop": False,
               "auth": a, "clients": auth_clients(a) if a else None, "ports_id": "str", "ports": PORT_LISTS["str"],
               "await_all": False, "remove_plan": plan}
    # Tor's choice for NEW:BEST is an ED25519-V3 key (current Tors) although the client noted version 2:
    # the address Tor returns is 56 characters; create -> complete -> remove
    for route, key, detach, pl, aw in itertools.product(("eph", "tor"), ("none", "discard"), (False, True), SMALL_PORTS, (False, True)):
        yield {"route": route, "version": 2, "key": key, "detach": detach, "single_hop": False, "auth": None, "clients": None,
               "ports_id": pl, "ports": PORT_LISTS[pl], "await_all": aw, "tor_best": "ED25519-V3"}
    # local-port lookups for int-form entries answered synchronously / on later reactor turns
    for route, version, pl, asy in itertools.product(ROUTES, (2, 3), sorted(INT_PORT_LISTS), (False, True)):
        a = "b1n" if route == "auth" else None
        yield {"route": route, "version": version, "key": "none", "detach": False, "single_hop": False,
               "auth": a, "clients": auth_clients(a) if a else None, "ports_id": pl, "ports": INT_PORT_LISTS[pl],
               "await_all": False, "async_port_lookup": asy}
    # both together: the caller re-uses its list while a local-port lookup of the creation is still in flight
    for route, pl in itertools.product(ROUTES, sorted(INT_PORT_LISTS)):
        a = "b1n" if route == "auth" else None
        yield {"route": route, "version": 2, "key": "none", "detach": False, "single_hop": False,
               "auth": a, "clients": auth_clients(a) if a else None, "ports_id": pl, "ports": INT_PORT_LISTS[pl],
               "await_all": False, "async_port_lookup": True, "caller_mutates_after_call": True}
    # the caller mutates / re-uses its argument objects right after the call returned (for Tor.create_onion_service
    # the call is then still parked on the TorConfig bootstrap): the command must reflect the arguments at call time
    for route, version, pl in itertools.product(ROUTES, (2, 3), sorted(PORT_LISTS)):
        a = "b2" if route == "auth" else None
        yield {"route": route, "version": version, "key": "none", "detach": False, "single_hop": False,
               "auth": a, "clients": auth_clients(a) if a else None, "ports_id": pl, "ports": PORT_LISTS[pl],
               "await_all": False, "caller_mutates_after_call": True}
    # state on the txtorcon.Tor object (_non_anonymous, as set by launch(non_anonymous_mode=...)) x the request
    for tna, single, version, key, detach, pl in itertools.product(
            (True, False), (False, None, True), (2, 3), ("none", "discard", "bare"), (False, True), SMALL_PORTS):
        yield {"route": "tor", "version": version, "key": key, "detach": detach, "single_hop": single,
               "auth": None, "clients": None, "ports_id": pl, "ports": PORT_LISTS[pl], "await_all": False,
               "tor_non_anonymous": tna}
    # unix-socket target paths containing braces / percent signs / other punctuation legal in file names
    for route, version, key, form, pi in itertools.product(
            ROUTES, (2, 3), ("none", "discard", "bare", "prefixed"), PUNCT_PORT_FORMS, range(len(PUNCT_UNIX_PATHS))):
        a = "b2" if route == "auth" else None
        yield {"route": route, "version": version, "key": key, "detach": False, "single_hop": False,
               "auth": a, "clients": auth_clients(a) if a else None, "ports_id": "punct:%s:%d" % (form, pi),
               "ports": punct_ports(form, PUNCT_UNIX_PATHS[pi]), "await_all": False}


# first characters taken from the character sets of "RSA1024:" / "ED25519-V3:" (base64 alphabet only)
ADV_HEADS = {2: ("R", "SA", "A1024", "RSA1024RSA", "4201ASR0", "AAAA"),
             3: ("E", "D2", "ED25519V3", "V3ED25519E", "9152DE3V", "2222")}


def adversarial_blob(version, i):
    head = ADV_HEADS[version][i % len(ADV_HEADS[version])]
    if version == 2:
        # not a decodable RSA key (real ones always start with "MII"): an opaque caller key
        return head + "MIICXAIBAAKBgQvfC14keyBlobWithAdversarialHead0123456789+/abcdefghijklmnopqrstuvwxyz"[:88 - len(head)]
    import base64
    raw = base64.b64decode((head + "vfC14" * 20)[:86] + "==")
    return base64.b64encode(raw).decode("ascii")          # 64 bytes: a well-formed ED25519-V3 blob


class _Blob(object):
    def __init__(self, blob):
        self.blob = blob


def key_material(cell):
    """-> (private_key argument, expected key spec set, pool key | None)"""
    version, kind = cell["version"], cell["key"]
    idx = OT.CALLER_BASE + int(cell.get("key_idx", 0))
    k = OT.KEYS.rsa(idx) if version == 2 else OT.KEYS.ed(idx)
    prefix = "RSA1024:" if version == 2 else "ED25519-V3:"
    if kind == "none":
        return None, ({"NEW:BEST", "NEW:RSA1024"} if version == 2 else {"NEW:ED25519-V3"}), None
    if kind == "discard":
        from txtorcon.onion import DISCARD
        return DISCARD, ({"NEW:BEST", "NEW:RSA1024"} if version == 2 else {"NEW:ED25519-V3"}), None
    if kind == "prefixed-other-type":
        # a type-prefixed key whose type is NOT the one the requested (or defaulted) version implies
        other = OT.KEYS.ed(idx) if version == 2 else OT.KEYS.rsa(idx)
        given = ("ED25519-V3:" if version == 2 else "RSA1024:") + other.blob
        return given, {given}, other
    if kind in ADV_KEY_KINDS:
        b = cell.get("adv_blob") or adversarial_blob(version, int(cell.get("adv", 0)))
        return (b if kind == "bare-adv" else prefix + b), {prefix + b}, _Blob(b)
    if kind == "bare":
        return k.blob, {prefix + k.blob}, k
    if kind == "prefixed":
        return prefix + k.blob, {prefix + k.blob}, k
    b = k.blob
    mid = len(b) // 2
    if kind == "crlf-lf-mid":
        return b[:mid] + "\n" + b[mid:], None, k
    if kind == "crlf-cr-mid":
        return b[:mid] + "\r" + b[mid:], None, k
    if kind == "crlf-inject":
        return b + "\r\nSIGNAL SHUTDOWN", None, k
    if kind == "crlf-trailing-lf":
        return b + "\n", None, k
    if kind == "crlf-prefixed-lf":
        return prefix + b[:7] + "\r\n" + b[7:], None, k
    if kind == "crlf-random":
        sep, pos = cell["crlf"]
        s = (prefix + b) if cell.get("crlf_prefixed") else b
        pos = pos % (len(s) + 1)
        return s[:pos] + sep + s[pos:], None, k
    raise ValueError(kind)


def port_forms(ports):
    out = set()
    vs = [int(p[0]) if isinstance(p, (list, tuple)) else (int(p.split(" ")[0]) if isinstance(p, str) else int(p))
          for p in ports]
    if len(set(vs)) != len(vs):
        out.add("repeated-virtport")
    for p in ports:
        if isinstance(p, (list, tuple)):
            loc = p[1]
            out.add("pair" if isinstance(loc, int) else ("pair-unix" if str(loc).startswith("unix:") else "pair-ip"))
        elif isinstance(p, str):
            out.add("str-unix" if " unix:" in p else "str")
        else:
            out.add("int")
    return "+".join(sorted(out))


def auth_class(cell):
    cl = cell.get("clients")
    if cl is None:
        return "none"
    if not cl:
        return "basic0"
    t = sum(1 for c in cl if isinstance(c, (list, tuple)))
    return "basic-named" if t == 0 else ("basic-token" if t == len(cl) else "basic-mixed")


def key_class(cell):
    return "crlf" if cell["key"].startswith("crlf") else cell["key"]


def variant_class(cell):
    out = []
    if cell.get("server_variant"):
        out.append("server-variant-" + cell["server_variant"])
    if cell.get("clients_as"):
        out.append("clients-given-as-" + cell["clients_as"])
    if cell.get("ports_as_iterator"):
        out.append("ports-given-as-iterator")
    if cell.get("version_omitted"):
        out.append("version-omitted")
    if cell.get("ports_as_tuple"):
        out.append("ports-given-as-tuple-of-%d" % len(cell["ports"]))
    if cell.get("tor_best"):
        out.append("server-best-is-" + cell["tor_best"])
    if cell.get("async_port_lookup"):
        out.append("local-port-lookup-finishes-on-later-turn")
    if cell.get("caller_mutates_after_call"):
        out.append("caller-mutates-arguments-after-call")
    if "tor_non_anonymous" in cell:
        out.append("tor-object-non-anonymous=%s+single_hop=%s" % (cell["tor_non_anonymous"], cell["single_hop"]))
    if unix_path_class(cell.get("ports") or []):
        out.append("unix-path-has-" + unix_path_class(cell["ports"]))
    return "+".join(out)


def input_class(cell, extra=None):
    s = "%s+v%d+key=%s+auth=%s" % (cell["route"], cell["version"], key_class(cell), auth_class(cell))
    if variant_class(cell):
        s += "+" + variant_class(cell)
    if extra:
        s += "+" + extra
    return s


def norm_target(virt, target):
    """(virtport, target text|None) -> comparable value; default target = 127.0.0.1:virt"""
    if target is None:
        return ("tcp", "127.0.0.1", virt)
    t = AO.parse_target(target)
    if t[0] == "tcp" and t[1] is None:
        return ("tcp", "127.0.0.1", t[2])
    return t


def expected_ports(ports, allocated):
    """-> (fixed [(virt, normalised target)], int_virts [virt...])"""
    fixed, ints = [], []
    for p in ports:
        if isinstance(p, (list, tuple)):
            v, loc = int(p[0]), p[1]
            if isinstance(loc, int):
                fixed.append((v, ("tcp", "127.0.0.1", loc)))
            else:
                fixed.append((v, norm_target(v, str(loc))))
        elif isinstance(p, str):
            v, loc = p.split(" ", 1)
            fixed.append((int(v), norm_target(int(v), loc)))
        else:
            ints.append(int(p))
    return fixed, ints


# ---------------------------------------------------------------------------

def strings_of(obj, depth=0, seen=None):
    """every str/bytes reachable from the attributes of the service object (not through its config)"""
    seen = seen if seen is not None else set()
    out = []
    if id(obj) in seen or depth > 4:
        return out
    seen.add(id(obj))
    if isinstance(obj, str):
        return [obj]
    if isinstance(obj, bytes):
        return [obj.decode("latin1")]
    if isinstance(obj, dict):
        for k, v in obj.items():
            out += strings_of(k, depth + 1, seen) + strings_of(v, depth + 1, seen)
        return out
    if isinstance(obj, (list, tuple, set, frozenset)):
        for v in obj:
            out += strings_of(v, depth + 1, seen)
        return out
    d = getattr(obj, "__dict__", None)
    if isinstance(d, dict) and type(obj).__module__.startswith("txtorcon"):
        for k, v in d.items():
            if k in ("_config", "_parent", "conf"):
                continue
            out += strings_of(v, depth + 1, seen)
    return out


class Ctx(object):
    """one control connection + reference Tor (+ TorConfig / txtorcon.Tor) shared by the creations of a history"""

    def __init__(self, single_hop, probe=False, variant=None, best=None):
        # probe: OUT-OF-SPEC server that answers with PrivateKey= although DiscardPK was sent
        # best: what this Tor makes of NEW:BEST (current Tors: an ED25519-V3 key, whatever version the client noted)
        self.tor = OT.OnionTor(non_anonymous_mode=bool(single_hop), send_key_despite_discard=bool(probe),
                               best=best or "RSA1024",
                               opaque_caller_keys=(variant == "opaque-caller-keys"),
                               unlinked_auth_service_ids=(variant == "auth-service-id-not-derived-from-key"))
        self.proto, self.tor, self.link = connected_protocol(self.tor)
        self.reactor = OT.PortReactor()
        self.aud = audit.Auditor(wire.LClock())
        self.cfg = None             # TorConfig (routes eph/auth), built on first use
        self.ttor = None            # txtorcon.Tor (route tor)
        self.services = []          # (service object, service id) of accepted creations, in order
        self.case = None            # what a violation stores for replay (the history), None: the cell
        self.hook = {"fn": None}
        self.tor.on_line.append(lambda line: self.hook["fn"] and self.hook["fn"](line))

    def config(self):
        if self.cfg is None and self.ttor is not None:
            self.cfg = self.ttor._config
        return self.cfg


def run_cell(cell, rec, probe=False, ctx=None, objs=None, extra_class=None, inject=None, remove=True):
    """execute one creation (cell) and judge it.  Alone: against a fresh reference Tor.  With `ctx`: as
    a further creation on the same connection, `objs` = caller-owned request objects re-used from an
    earlier creation ({"ports": list, "auth": AuthBasic, "key": ...}); inject="refuse": Tor answers 512."""
    import txtorcon
    from txtorcon import TorConfig
    from txtorcon.onion import (EphemeralOnionService, EphemeralAuthenticatedOnionService, AuthBasic)

    bad = []
    route, version = cell["route"], cell["version"]
    case = ctx.case if (ctx is not None and ctx.case) else dict(cell)

    def V(clause, detail, extra=None):
        bad.append(clause)
        ex = "+".join(x for x in (extra, extra_class) if x)
        rec.violation(clause, input_class(cell, ex or None), detail, case)

    if ctx is None:
        ctx = Ctx(cell["single_hop"], probe, cell.get("server_variant"), cell.get("tor_best"))
    tor, proto, link, reactor, aud = ctx.tor, ctx.proto, ctx.link, ctx.reactor, ctx.aud
    reactor.async_stop = bool(cell.get("async_port_lookup"))
    # the server's mode: what the txtorcon.Tor object says it launched (if stated), else whatever is requested
    tor.non_anonymous_mode = bool(cell["tor_non_anonymous"]) if "tor_non_anonymous" in cell else bool(cell["single_hop"])
    logs = audit.LogCapture()
    logs.start()
    snaps = []          # (moment, [strings])
    state = {"svc": None}
    cfg0 = ctx.config()
    try:
        n_before = len(cfg0.EphemeralOnionServices) if cfg0 is not None else 0
    except Exception:
        n_before = 0
    alloc_before = len(reactor.ports)
    rep_before = len(tor.replies)
    log_before = len(tor.add_onion_log)

    def find_service():
        cfg = ctx.config()
        if state["svc"] is None and cfg is not None:
            try:
                lst = cfg.EphemeralOnionServices
            except Exception:
                lst = []
            if len(lst) > n_before:
                state["svc"] = lst[n_before]
        return state["svc"]

    def snap(moment):
        svc = find_service()
        if svc is not None:
            snaps.append((moment, strings_of(svc)))
            rec.count("custody_snapshots")

    def on_line(line):
        if line.startswith("ADD_ONION"):
            snap("add-onion-written")
    ctx.hook["fn"] = on_line

    try:
        key_arg, want_specs, supplied = key_material(cell)
        if objs is not None and "key" in objs and want_specs is not None and cell["key"] in ("bare", "prefixed"):
            key_arg = objs["key"]
        kw = dict(private_key=key_arg, version=(None if cell.get("version_omitted") else version), detach=cell["detach"],
                  single_hop=cell["single_hop"], await_all_uploads=cell["await_all"])
        progress = []
        if cell["await_all"]:
            kw["progress"] = lambda p, tag, desc: progress.append(p)
        if objs is not None and "ports" in objs:
            ports = objs["ports"]
        else:
            ports = [tuple(p) if isinstance(p, list) else p for p in cell["ports"]]
            if cell.get("ports_as_tuple"):
                ports = tuple(ports)            # the API takes any sequence: a tuple of mappings, too
            if cell.get("ports_as_iterator"):
                ports = iter(ports)             # not a sequence: may be refused, must not be mis-read
        ports_before = [] if cell.get("ports_as_iterator") else [p for p in ports]
        auth_obj = None
        if inject == "refuse":
            tor.script("ADD_ONION", (512, [("end", "Bad arguments to ADD_ONION: refused by the harness")]))
        if route == "tor":
            if ctx.ttor is None:
                ctx.ttor = txtorcon.Tor(reactor, proto, _non_anonymous=cell.get("tor_non_anonymous"))
            base = len(tor.lines)
            d = ctx.ttor.create_onion_service(ports, **kw)
        else:
            if ctx.cfg is None:
                ctx.cfg = TorConfig(proto)
                link.pump()
                if not ctx.cfg.post_bootstrap.called:
                    V("harness-config-bootstrap-stalled", {"lines": tor.lines[-5:]})
                    return bad
            cfg = ctx.cfg
            base = len(tor.lines)
            if route == "auth":
                if objs is not None and "auth" in objs:
                    auth_obj = objs["auth"]
                else:
                    clients = [tuple(c) if isinstance(c, list) else c for c in cell["clients"]]
                    how = cell.get("clients_as")
                    if how == "iter":
                        auth_obj = AuthBasic(iter(list(clients)))                 # a single-pass iterator
                    elif how == "generator":
                        auth_obj = AuthBasic(c for c in list(clients))
                    elif how == "zip":                                            # all clients carry a token
                        auth_obj = AuthBasic(zip([c[0] for c in clients], [c[1] for c in clients]))
                    elif how == "tuple":
                        auth_obj = AuthBasic(tuple(clients))
                    else:
                        auth_obj = AuthBasic(clients)
                auth_before = {n: auth_obj.keyblob_for(n) for n in auth_obj.client_names()}
                kw["auth"] = auth_obj
                d = EphemeralAuthenticatedOnionService.create(reactor, cfg, ports, **kw)
            else:
                d = EphemeralOnionService.create(reactor, cfg, ports, **kw)
        if cell.get("caller_mutates_after_call"):
            # the call has returned (it may be parked on the TorConfig bootstrap): the caller re-uses its
            # argument objects; the request is what was passed at call time
            ports[:] = ["9999 127.0.0.1:9", "9998 unix:/mutated/after/call"]
            if route == "auth":
                clients.append("late-client")
            rec.count("caller_mutated_arguments_after_call")
        if objs is not None:
            objs.setdefault("ports", ports)
            if auth_obj is not None:
                objs.setdefault("auth", auth_obj)
            if cell["key"] in ("bare", "prefixed"):
                objs.setdefault("key", key_arg)
        if unix_path_class(cell["ports"]):
            rec.count("unix_path_punctuation_cells")
        o = aud.watch(d, "create")
        link.pump()
        turns = 0
        while reactor.pending_stops and turns < 50:
            # later reactor turns: the local-port lookups (listen on port 0 / stopListening) finish one by one
            turns += 1
            reactor.finish_stops()
            link.pump()
        if turns:
            rec.count("async_port_lookup_turns", turns)
        if route == "tor":
            # bootstrap lines of Tor.get_config() belong to the set-up, not to the creation
            base = next((i for i, l in enumerate(tor.lines) if i >= base and
                         (l.startswith("ADD_ONION") or l.startswith("SETEVENTS CONF_CHANGED HS_DESC")
                          or "HS_DESC" in l)), len(tor.lines))
        mine = lambda: tor.lines[base:]
        add_lines = [l for l in mine() if l.upper().startswith("ADD_ONION")]

        def request_objects_check():
            # the caller's request objects after the creation: observed (counted), the verdict comes from
            # the ADD_ONION of the NEXT creation that re-uses them
            if not cell.get("ports_as_iterator") and list(ports) != ports_before and not cell.get("caller_mutates_after_call"):
                rec.count("request_objects_mutated")
                rec.seen("request_object_mutations", "ports-list/" + input_class(cell))
            if auth_obj is not None:
                try:
                    now = {n: auth_obj.keyblob_for(n) for n in auth_obj.client_names()}
                except Exception as e:
                    now = {"<error>": repr(e)}
                rec.count("request_objects_compared")
                if now != auth_before:
                    rec.count("request_objects_mutated")
                    rec.seen("request_object_mutations", "auth-basic-tokens/" + input_class(cell))

        # ---- ports handed over as a one-shot iterator: refused before sending, or read correctly -------------------
        if cell.get("ports_as_iterator") and not add_lines and o.fired == 1 and o.ok is False:
            rec.count("ports_iterator_refused_before_sending")
            foreign = [l for l in mine() if not l.startswith("SETEVENTS ")]
            if foreign:
                V("unexpected-line-after-local-refusal", {"lines": foreign})
            rec.case(cell, nontrivial=True)
            return bad
        # ---- key of another type than the version implies: sent exactly as given, or refused before sending -------
        if cell["key"] == "prefixed-other-type" and not add_lines and o.fired == 1 and o.ok is False:
            rec.count("mismatched_key_type_refused_before_sending")
            foreign = [l for l in mine() if not l.startswith("SETEVENTS ")]
            if foreign:
                V("unexpected-line-after-local-refusal", {"lines": foreign})
            request_objects_check()
            rec.case(cell, nontrivial=True)
            return bad
        # ---- CR/LF key material: error, nothing written but (un)subscriptions -----------------
        if want_specs is None:
            rec.count("crlf_cells_checked")
            if not (o.fired == 1 and o.ok is False):
                V("crlf-key-not-rejected", {"outcome": str(o.describe())[:200]})
            if add_lines:
                V("crlf-key-add-onion-sent", {"lines": add_lines})
            foreign = [l for l in mine() if not l.startswith("SETEVENTS ")]
            foreign = [l for l in foreign if not l.upper().startswith("ADD_ONION")]
            if foreign:
                V("crlf-key-injected-line", {"lines": foreign})
            refused = [(l, c) for (l, c, _) in tor.replies[rep_before:] if c >= 400 and not l.startswith("GETINFO onions/")]
            if refused and not foreign and not add_lines:
                V("crlf-key-injected-line", {"refused": refused})
            request_objects_check()
            rec.case(cell if extra_class is None else [cell, extra_class], nontrivial=True)
            return bad

        # ---- the command ---------------------------------------------------------------------
        if len(add_lines) != 1:
            V("add-onion-count-%d" % len(add_lines), {"lines": mine(), "outcome": str(o.describe())[:300]})
            rec.case(cell, nontrivial=False)
            return bad
        try:
            parsed = AO.parse_add_onion(add_lines[0][len("ADD_ONION "):])
        except AO.AddOnionError as e:
            V("add-onion-unparseable", {"line": add_lines[0], "error": str(e)})
            rec.case(cell, nontrivial=True)
            return bad
        rec.count("add_onion_decoded")
        rec.seen("key_specs", parsed.key_type + (":" + parsed.key_blob if parsed.key_type == "NEW" else ":<blob>"))
        rec.seen("flag_sets", ",".join(sorted(parsed.flags)) or "-")
        # key specifier
        if parsed.key_spec() not in want_specs:
            V("key-spec-mismatch", {"want": sorted(want_specs), "got": parsed.key_spec()[:120]})
        # ports
        fixed, ints = expected_ports(cell["ports"], None)
        got = [(v, norm_target(v, t)) for (v, t) in parsed.ports]
        allocated = [p.number for p in reactor.ports[alloc_before:]]
        rest = list(got)
        ports_ok = True
        for f in fixed:
            if f in rest:
                rest.remove(f)
            else:
                ports_ok = False
        if len(rest) != len(ints):
            ports_ok = False
        else:
            alloc_left = list(allocated)
            for v in ints:
                hit = next((g for g in rest if g[0] == v and g[1][0] == "tcp" and g[1][1] == "127.0.0.1"
                            and g[1][2] in alloc_left), None)
                if hit is None:
                    ports_ok = False
                    break
                rest.remove(hit)
                alloc_left.remove(hit[1][2])
        rec.count("port_mappings_compared", len(parsed.ports))
        if unix_path_class(cell["ports"]):
            rec.count("unix_path_punctuation_cells_compared")
            rec.seen("unix_path_punctuation_classes", unix_path_class(cell["ports"]))
        if not ports_ok:
            both = cell.get("async_port_lookup") and cell.get("caller_mutates_after_call")
            V("port-mappings-mismatch", {"requested": cell["ports"], "allocated_local_ports": allocated,
                                         "sent": parsed.ports},
              extra=None if both else "ports=" + port_forms(cell["ports"]))
        for p in reactor.ports[alloc_before:]:
            if p.interface != "127.0.0.1":
                V("local-port-not-loopback", {"interface": p.interface})
        # flags
        want_flags = set()
        if cell["detach"]:
            want_flags.add("Detach")
        if cell["key"] == "discard":
            want_flags.add("DiscardPK")
        if cell["single_hop"]:
            want_flags.add("NonAnonymous")
        if route == "auth":
            want_flags.add("BasicAuth")
        if set(parsed.flags) != want_flags:
            V("flags-mismatch", {"want": sorted(want_flags), "got": parsed.flags},
              extra="detach=%d+single=%d" % (cell["detach"], bool(cell["single_hop"])))
        # client auth
        want_auth = []
        for c in (cell["clients"] or []):
            want_auth.append((c[0], c[1]) if isinstance(c, (list, tuple)) else (c, None))
        rec.count("client_auth_compared", len(want_auth))
        if sorted(parsed.client_auth, key=repr) != sorted(want_auth, key=repr):
            V("client-auth-mismatch", {"want": want_auth, "got": parsed.client_auth})

        if inject == "refuse":
            rec.count("refused_by_injection")
            if not (o.fired == 1 and o.ok is False):
                V("create-did-not-fail-after-refused-add-onion", {"outcome": str(o.describe())[:200]})
            request_objects_check()
            rec.case([cell, extra_class, inject], nontrivial=True)
            return bad
        if len(tor.add_onion_log) <= log_before:
            V("harness-add-onion-not-handled", {"lines": mine()})
            return bad
        ent = tor.add_onion_log[-1]
        expect_refusal = (route == "auth" and (version == 3 or not cell["clients"] or parsed.version() == 3)) or \
            bool(cell["single_hop"]) != bool(tor.non_anonymous_mode)
        if ent["code"] != 250:
            if not expect_refusal:
                if not bad:
                    V("add-onion-refused-by-tor", {"line": add_lines[0], "code": ent["code"], "text": ent["text"]})
            else:
                rec.count("refused_by_tor_as_expected")
            rec.case(cell if extra_class is None else [cell, extra_class], nontrivial=True)
            if len([l for l in mine() if l.upper().startswith("ADD_ONION")]) != 1:
                V("add-onion-count-after-refusal", {"lines": mine()})
            request_objects_check()
            return bad
        sid = ent["service_id"]
        trec = tor.onions[sid]
        svc = find_service()
        snap("after-reply")
        if svc is None:
            V("no-service-object", {})
            return bad
        ctx.services.append((svc, sid))
        # ---- address --------------------------------------------------------------------------
        rec.count("hostname_compared")
        if svc.hostname != sid + ".onion":
            V("hostname-mismatch", {"tor": sid + ".onion", "service": repr(svc.hostname)[:120]})
        # ---- descriptor uploads so that create() can complete -----------------------------------
        addr = tor.hs_address(trec)
        for i in (0, 1):
            tor.hs_desc("UPLOAD", addr, i)
            link.pump()
            snap("event")
        tor.hs_desc("UPLOADED", addr, 0)
        link.pump()
        snap("event")
        tor.hs_desc("UPLOADED", addr, 1)
        link.pump()
        snap("event")
        if o.fired == 1 and o.ok:
            rec.count("create_completed")
            if o.value is not svc:
                V("create-returned-other-object", {"got": repr(o.value)[:100]})
        elif o.fired:
            V("create-failed-after-accepted-add-onion", {"outcome": str(o.describe())[:300]})
        else:
            rec.count("create_pending")
            rec.seen("create_pending_classes", input_class(cell))
        snap("after-create")
        # ---- key custody ------------------------------------------------------------------------
        gen_blob = trec.key.blob if trec.generated else None
        if cell["key"] == "none":
            rec.count("generated_key_retention_checked")
            pk = svc.private_key
            if isinstance(pk, bytes):
                pk = pk.decode("latin1")
            if pk not in (trec.key.spec(), trec.key.blob):
                V("generated-key-not-retained", {"private_key": repr(pk)[:80], "tor_sent": trec.key.spec()[:40] + "..."})
        elif cell["key"] == "discard":
            rec.count("discard_custody_checked")
            held = [m for (m, strs) in snaps if any(gen_blob in s for s in strs)]
            oos = "out-of-spec-server-sends-key-despite-discardpk" if probe else None
            if probe:
                rec.count("out_of_spec_server_cells")
                if not trec.key_sent and "DiscardPK" in parsed.flags:
                    V("harness-out-of-spec-server-did-not-send-key", {}, extra=oos)
            elif trec.key_sent:
                rec.count("tor_sent_key_because_discardpk_missing")
            if held:
                V("discarded-key-stored", {"moments": sorted(set(held)), "server_sent_key": bool(trec.key_sent)}, extra=oos)
            pk = svc.private_key
            if isinstance(pk, (str, bytes)) and pk:
                V("discarded-key-stored", {"private_key": repr(pk)[:60], "server_sent_key": bool(trec.key_sent)}, extra=oos)
        else:
            pk = svc.private_key
            rec.count("supplied_key_compared")
            if isinstance(pk, str) and supplied.blob not in pk:
                rec.count("supplied_key_not_on_object")      # not demanded by the statement
        # client tokens on the object: observed, not demanded by the statement
        if route == "auth":
            try:
                toks = {n: svc.get_client(n).auth_token for n in svc.client_names()}
            except Exception as e:
                toks = {"<error>": repr(e)}
            if toks != trec.client_auth:
                rec.count("client_tokens_differ_from_tor")
        request_objects_check()
        n_add = len([l for l in mine() if l.upper().startswith("ADD_ONION")])
        if n_add != 1:
            V("add-onion-count-%d" % n_add, {"lines": mine()})
        # ---- removal --------------------------------------------------------------------------
        if remove:
            bad += remove_service(ctx, cell, rec, svc, sid, V, snap, plan=cell.get("remove_plan"))
        stray = [(l, c) for (l, c, _) in tor.replies[rep_before:] if c >= 500 and not l.startswith("GETINFO onions/")
                 and not (cell.get("remove_plan") and l.startswith("DEL_ONION"))]
        if stray:
            V("command-refused-by-tor", {"refused": stray})
        if link.exceptions:
            V("exception-escaped", {"exc": link.exceptions})
            del link.exceptions[:]
        rec.case(cell if extra_class is None else [cell, extra_class], nontrivial=True)
        return bad
    finally:
        ctx.hook["fn"] = None
        logs.stop()
        n = len(logs.take())
        if n:
            rec.count("logged_errors", n)


def remove_service(ctx, cell, rec, svc, sid, V, snap=None, plan=None):
    """svc.remove() and its oracle.  plan = what Tor answers to the successive remove() calls, e.g.
    ["552", "ok"]: the first DEL_ONION is refused, the caller tries again.  Per call: a DEL_ONION that is sent
    names exactly the assigned ServiceID; a remove() that reports success has had Tor's 250 for a DEL_ONION
    sent by THIS call, and the reference Tor no longer has the service; nothing else but SETEVENTS is written."""
    tor, link, aud = ctx.tor, ctx.link, ctx.aud
    plan = list(plan or ["ok"])
    for step, answer in enumerate(plan):
        before = len(tor.lines)
        dlog = len(tor.del_onion_log)
        ex = None if len(plan) == 1 else ("removal-call-%d-after-%s" % (step + 1, "+".join(plan[:step]) or "nothing"))
        if answer != "ok":
            text = {"552": "Unknown Onion Service id", "551": "Failed to remove Onion Service"}.get(answer, "refused")
            tor.script("DEL_ONION", (int(answer), [("end", text)]))
        try:
            dr = svc.remove()
        except Exception as e:
            V("remove-raised", {"exc": repr(e)}, extra=ex)
            return []
        orm = aud.watch(dr, "remove")
        link.pump()
        rec.count("remove_calls")
        if snap:
            snap("after-remove")
        dels = [l for l in tor.lines[before:] if l.upper().startswith("DEL_ONION")]
        others = [l for l in tor.lines[before:] if not l.upper().startswith("DEL_ONION")
                  and not l.startswith("SETEVENTS ")]
        got_sid = None
        if len(dels) > 1:
            V("del-onion-count-%d" % len(dels), {"lines": tor.lines[before:]}, extra=ex)
        elif dels:
            rec.count("del_onion_decoded")
            try:
                got_sid = AO.parse_del_onion(dels[0][len("DEL_ONION "):])
            except AO.AddOnionError as e:
                V("del-onion-malformed", {"line": dels[0], "error": str(e), "service_id": sid}, extra=ex)
            if got_sid is not None and got_sid != sid:
                V("del-onion-wrong-service", {"line": dels[0], "service_id": sid}, extra=ex)
        succeeded = orm.fired == 1 and orm.ok
        if orm.fired != 1:
            V("remove-did-not-finish", {"outcome": str(orm.describe())[:200], "lines": tor.lines[before:]}, extra=ex)
        elif succeeded:
            accepted = len(tor.del_onion_log) > dlog and tor.del_onion_log[-1]["code"] == 250 \
                and tor.del_onion_log[-1]["service_id"] == sid
            if not dels:
                V("remove-reported-success-without-del-onion", {"lines": tor.lines[before:], "tor_still_has_service": sid in tor.onions}, extra=ex)
            elif answer != "ok":
                V("remove-reported-success-although-tor-refused", {"line": dels[0], "answer": answer}, extra=ex)
            elif got_sid == sid and not accepted:
                V("remove-reported-success-without-tors-250", {"line": dels[0]}, extra=ex)
            if sid in tor.onions and dels and answer == "ok" and got_sid == sid:
                V("service-still-in-tor-after-successful-remove", {"service_id": sid}, extra=ex)
        else:
            rec.count("remove_calls_failed")
            if answer == "ok" and got_sid == sid:
                V("remove-did-not-succeed", {"outcome": str(orm.describe())[:200]}, extra=ex)
            if answer == "ok" and not dels:
                V("del-onion-count-0", {"lines": tor.lines[before:], "outcome": str(orm.describe())[:200]}, extra=ex)
        if others:
            V("unexpected-line-on-removal", {"lines": others}, extra=ex)
    ctx.services = [(s, i) for (s, i) in ctx.services if s is not svc]
    return []


# ---------------------------------------------------------------------------
# histories: several creations on one connection re-using the caller's request objects

HISTORY_SHAPES = ("twice-live", "three-live", "recreate", "after-refusal", "after-local-error")


def all_histories():
    for route in ROUTES:
        auths = ("b1n", "b2", "b3", "b3n", "b1t") if route == "auth" else (None,)
        versions = (2,) if route == "auth" else (2, 3)
        for shape, version, a, pl, detach in itertools.product(
                HISTORY_SHAPES, versions, auths, ("int+pair+str", "pair+pair-unix", "dup3:int+pair+str+other"), (False, True)):
            keys = ("bare", "prefixed") if shape == "recreate" else ("none", "discard")
            for key in keys:
                yield {"history": shape, "route": route, "version": version, "key": key, "detach": detach,
                       "single_hop": False, "auth": a, "clients": auth_clients(a) if a else None,
                       "ports_id": pl, "ports": PORT_LISTS[pl], "await_all": detach}


def run_history(h, rec):
    """2-3 creations in a row on ONE connection / TorConfig with the SAME request objects
    (ports list, AuthBasic instance, key string); every ADD_ONION is judged by the unchanged
    per-creation oracle against what the caller asked for."""
    shape = h["history"]
    cell = {k: v for k, v in h.items() if k != "history"}
    ctx = Ctx(cell["single_hop"])
    ctx.case = dict(h)
    objs = {}
    tag = "later-creation-reusing-request-objects"
    rec.count("histories")
    if shape in ("twice-live", "three-live"):
        n = 2 if shape == "twice-live" else 3
        for i in range(n):
            run_cell(cell, rec, ctx=ctx, objs=objs, extra_class=tag if i else "first-creation-of-history", remove=False)
            rec.count("history_creations")
        for (svc, sid) in list(ctx.services):
            def V(clause, detail, extra=None):
                rec.violation(clause, input_class(cell, "removal-after-history"), detail, ctx.case)
            remove_service(ctx, cell, rec, svc, sid, V)
    elif shape == "recreate":
        run_cell(cell, rec, ctx=ctx, objs=objs, extra_class="first-creation-of-history", remove=True)
        run_cell(cell, rec, ctx=ctx, objs=objs, extra_class=tag, remove=True)
        rec.count("history_creations", 2)
    elif shape == "after-refusal":
        run_cell(cell, rec, ctx=ctx, objs=objs, extra_class="first-creation-of-history", inject="refuse")
        run_cell(cell, rec, ctx=ctx, objs=objs, extra_class=tag + "+after-refused-creation", remove=True)
        run_cell(cell, rec, ctx=ctx, objs=objs, extra_class=tag + "+after-refused-creation", remove=True)
        rec.count("history_creations", 3)
    elif shape == "after-local-error":
        c0 = dict(cell, key="crlf-lf-mid")
        run_cell(c0, rec, ctx=ctx, objs=objs, extra_class="first-creation-of-history")
        run_cell(cell, rec, ctx=ctx, objs=objs, extra_class=tag + "+after-locally-rejected-key", remove=False)
        run_cell(cell, rec, ctx=ctx, objs=objs, extra_class=tag + "+after-locally-rejected-key", remove=True)
        rec.count("history_creations", 3)
    else:
        raise ValueError(shape)


# ---------------------------------------------------------------------------
# random cells (thorough)

NAME_ALPHA = "abcdefghijklmnopqrstuvwxyzABCDEFGHIJKLMNOPQRSTUVWXYZ0123456789+-_"


def random_cell(rnd):
    route = rnd.choice(ROUTES)
    version = rnd.choice((2, 3))
    kinds = ["none", "discard", "bare", "prefixed", "crlf-random"]
    key = rnd.choice(kinds)
    cell = {"route": route, "version": version, "key": key, "detach": rnd.random() < 0.5,
            "single_hop": rnd.random() < 0.3, "auth": None, "clients": None, "await_all": rnd.random() < 0.5,
            "key_idx": rnd.randint(0, 2), "ports_id": "random"}
    if key == "crlf-random":
        cell["crlf"] = [rnd.choice(["\n", "\r", "\r\n", "\r\nSIGNAL HALT\r\n", "\n\n"]), rnd.randint(0, 1200)]
        cell["crlf_prefixed"] = rnd.random() < 0.5
    if rnd.random() < 0.15:
        # caller blob whose head is drawn from the characters of the type prefix
        cell["key"] = rnd.choice(ADV_KEY_KINDS)
        cell["server_variant"] = "opaque-caller-keys"
        alpha = "RSA1024" if version == 2 else "ED25519V3"
        head = "".join(rnd.choice(alpha) for _ in range(rnd.randint(1, 14)))
        cell["adv_blob"] = head + adversarial_blob(version, 0)[len(head):]
        cell.pop("crlf", None)
        if version == 3:
            import base64
            cell["adv_blob"] = base64.b64encode(base64.b64decode(cell["adv_blob"][:86] + "==")).decode("ascii")
    if key in ("bare", "prefixed") and rnd.random() < 0.15:
        cell["key"] = "prefixed-other-type"
        if version == 2 and rnd.random() < 0.5:
            cell["version_omitted"] = True
    if rnd.random() < 0.25:
        cell["ports_as_tuple"] = True
    if rnd.random() < 0.15:
        cell["remove_plan"] = [rnd.choice(["552", "551"]) for _ in range(rnd.randint(1, 3))] + ["ok"]
    if rnd.random() < 0.1 and not cell.get("ports_as_tuple"):
        cell["caller_mutates_after_call"] = True
    if rnd.random() < 0.3:
        cell["async_port_lookup"] = True
    if version == 2 and route != "auth" and key in ("none", "discard") and rnd.random() < 0.3:
        cell["tor_best"] = "ED25519-V3"
    if route == "tor" and rnd.random() < 0.5:
        cell["tor_non_anonymous"] = rnd.choice([True, False])
        cell["single_hop"] = rnd.choice([False, None, True])
    if route == "auth":
        n = rnd.randint(0, 5)
        names = set()
        while len(names) < n:
            names.add("".join(rnd.choice(NAME_ALPHA) for _ in range(rnd.randint(1, 16))))
        cl = []
        for i, nm in enumerate(sorted(names)):
            cl.append([nm, OT.client_cookie("r%d%s" % (rnd.randint(0, 1 << 30), nm))] if rnd.random() < 0.5 else nm)
        rnd.shuffle(cl)
        cell["clients"] = cl
        cell["auth"] = "random"
        if rnd.random() < 0.4:
            cell["clients_as"] = rnd.choice(["iter", "generator", "tuple"])
    ports = []
    virts = set()
    for _ in range(rnd.choice([1, 1, 2, 3, 3, 4, 6])):
        v = rnd.choice([1, 80, 443, 65535, rnd.randint(1, 65535)])
        if virts and rnd.random() < 0.3:
            v = rnd.choice(sorted(virts))          # a further mapping on an already used public port
        virts.add(v)
        lp = rnd.choice([1, 65535, rnd.randint(1, 65535)])
        path = "/" + "/".join("".join(rnd.choice("abcxyz019._-") for _ in range(rnd.randint(1, 8)))
                              for _ in range(rnd.randint(1, 3)))
        ip = rnd.choice(["127.0.0.1", "127.0.0.%d" % rnd.randint(2, 254), "10.1.2.3", "192.168.0.%d" % rnd.randint(1, 254)])
        form = rnd.choice(["int", "pair", "str", "pair-unix", "str-unix", "pair-ip"])
        if form == "int":
            ports.append(v)
        elif form == "pair":
            ports.append([v, lp])
        elif form == "str":
            ports.append("%d %s:%d" % (v, ip, lp))
        elif form == "pair-unix":
            ports.append([v, "unix:" + path])
        elif form == "str-unix":
            ports.append("%d unix:%s" % (v, path))
        else:
            ports.append([v, "%s:%d" % (ip, lp)])
    cell["ports"] = ports
    if rnd.random() < 0.3:
        # a unix-socket target whose path has punctuation that is legal in file names (braces, percent, ...)
        seg = "".join(rnd.choice("{}{}%$~@+!:[]ab01.") for _ in range(rnd.randint(1, 6)))
        path = "/" + "".join(rnd.choice("abcxyz019._-") for _ in range(rnd.randint(0, 4))) + seg + "/s.sock"
        v = rnd.choice([80, 443, rnd.randint(1, 65535)])
        entry = [v, "unix:" + path] if rnd.random() < 0.5 else "%d unix:%s" % (v, path)
        ports.insert(rnd.randint(0, len(ports)), entry)
    return cell


# ---------------------------------------------------------------------------

_QUIET = []


def quiet_logs():
    """twisted's default observer prints every logged failure to stderr; LogCapture still sees them"""
    if not _QUIET:
        _QUIET.append(1)
        from twisted.logger import globalLogBeginner
        globalLogBeginner.beginLoggingTo([lambda ev: None], redirectStandardIO=False, discardBuffer=True)


def run_shard(spec, rec):
    quiet_logs()
    OT.memoize_pem_loading()
    OT.KEYS.rsa(0)
    rec.count("reference_selftest_assertions", AO.selftest() + (OT.selftest() if spec.get("part") == 0 else 0))
    if spec["mode"] == "product":
        cells = list(all_cells())
        k, n = spec["part"], spec["parts"]
        mine = cells[k::n]
        for i, cell in enumerate(mine):
            run_cell(cell, rec)
            if i < 2:
                rec.sample(cell)
            if cell["key"] == "discard":
                # the same request against an OUT-OF-SPEC server (reply carries PrivateKey= despite DiscardPK):
                # "no key is ever stored" must hold there too; tagged as its own input class
                run_cell(dict(cell, out_of_spec_server=True), rec, probe=True)
        rec.count("cells_in_product", len(mine))
        rec.enumerated("route x version x key x detach x single-hop x auth x port-list x await_all (%d cells)" % len(cells))
    elif spec["mode"] == "history":
        hs = list(all_histories())
        for i, h in enumerate(hs[spec["part"]::spec["parts"]]):
            run_history(h, rec)
            if i < 1:
                rec.sample(h)
        rec.enumerated("histories: shape x route x version x auth x port-list x detach x key (%d)" % len(hs))
    elif spec["mode"] == "random":
        for i in range(spec["n"]):
            rnd = gen.rnd_for(spec["seed"], PROPERTY, spec["shard"], i)
            cell = random_cell(rnd)
            rec.count("random_cells")
            if cell["key"] == "discard" and rnd.random() < 0.5:
                cell["out_of_spec_server"] = True
            run_cell(cell, rec, probe=bool(cell.get("out_of_spec_server")))
            if i < 1:
                rec.sample(cell)


def replay(case, rec):
    quiet_logs()
    OT.memoize_pem_loading()
    OT.KEYS.rsa(0)
    if "history" in case:
        run_history(case, rec)
    else:
        run_cell(case, rec, probe=bool(case.get("out_of_spec_server")))


def plan(tier, seed):
    specs = [{"mode": "product", "part": i, "parts": 14} for i in range(14)]
    specs += [{"mode": "history", "part": i, "parts": 2} for i in range(2)]
    if tier == "thorough":
        specs += [{"mode": "random", "n": 900} for _ in range(12)]
    return specs
