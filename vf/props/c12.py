"""C12 - SETCONF encodes any keys/values so Tor parses back exactly them, on one line.

Monitor: bytes written by the real ``TorControlProtocol.set_conf`` on a bootstrapped
connection (vf.ctl.Session).  Oracle: vf.refs.kvline (independent implementation of
Tor's kvline grammar with C-style escapes) + "exactly one line" framing rule.
"""
import itertools

from .. import ctl, gen
from ..refs import kvline

PROPERTY = "C12"
READY = True
LEVEL = "exploration"
TECHNIQUE = ("runtime monitoring: wire recorder on the real set_conf + independent kvline decoder as oracle; "
             "exhaustive short strings over the critical alphabet plus random printable values")
LEVEL_TEXT = ("Held on the executions observed: every string of length <=3 (quick) / <=4 (thorough) over "
              "{a,space,tab,\",\\,=,CR,LF} in every pair position of 1-3 pair commands, plus tens of thousands of random "
              "printable values, ints and bools in 1-6 pair commands; each written line decoded by the independent "
              "kvline parser and compared with the arguments. Exhaustive only for the short-string space.")
LEVEL_NOTE = ("Trusted: vf.refs.kvline (written from control-spec/kvline.c description, self-tested), Tor's line framing "
              "modelled as 'LF ends a line'. Non-ASCII values are outside the quantifier and not generated.")
RULE = ("a case = one set_conf(*pairs) call (or, in 'queued' mode, 1-4 calls made while an earlier command is unanswered); distinct = the argument tuple; non-trivial = a SETCONF line was written "
        "and decoded (or the call was refused) and compared with the arguments")
ASSUMPTIONS = [
    "a value containing CR or LF may either be encoded with escapes inside a quoted string or refused with an error and nothing written; both satisfy the statement",
    "keys that cannot be a kvline key (empty, containing white space or '=') are judged only on the one-line rule and on not being sent mangled silently is NOT demanded",
    "values are compared as str(value)",
    "C0 control characters and DEL in values (outside the statement's printable-ASCII quantifier, inside its 'whatever characters' one-line clause) are generated too and judged by the same round trip through the reference grammar (octal / hex escapes decoded, other backslash pairs stand for the second character)",
    "commands longer than Tor's 1 MiB command limit are judged on the one-line rule and the round trip like any other",
]
TRUSTED_BASE = ["vf.refs.kvline", "vf.ctl.Session"]
ANCHORS = ["txtorcon.torcontrolprotocol:TorControlProtocol.set_conf",
           "txtorcon.torcontrolprotocol:TorControlProtocol.queue_command",
           "txtorcon.torcontrolprotocol:TorControlProtocol._maybe_issue_command"]
FLOORS = {"quick": {"evaluations": 3000, "lines_decoded": 2500, "queued_calls": 800, "control_char_cases": 500, "marker_literal_cases": 100, "equal_but_differently_printed_value_pairs": 60, "odd_but_legal_key_cases": 60, "long_commands": 3,
                    "reach:txtorcon.torcontrolprotocol:TorControlProtocol.set_conf": 3000},
          "thorough": {"evaluations": 30000, "lines_decoded": 25000}}

ALPHA = ["a", " ", "\t", '"', "\\", "=", "\r", "\n"]
KEYS = ["SocksPort", "Log", "ORPort", "HiddenServiceDir", "ContactInfo", "__LeaveStreamsUnattached"]


def value_class(values):
    s = "".join(v for v in values if isinstance(v, str))
    if "\r" in s or "\n" in s:
        return "value-has-cr-or-lf"
    if any((ord(c) < 0x20 and c != "\t") or ord(c) == 0x7f for c in s):
        return "value-has-control-char"
    if '"' in s:
        return "value-has-dquote"
    if "\\" in s:
        return "value-has-backslash"
    if "\t" in s:
        return "value-has-tab"
    if any(isinstance(v, str) and v == "" for v in values):
        return "value-empty"
    if " " in s:
        return "value-has-space"
    return "plain"


def key_ok(k):
    return k != "" and not any(c in k for c in " \t\r\n\v\f=")


_proto_cache = {}


def fresh_session():
    s = ctl.Session([], boot=True)
    s.start()
    return s


def run_case(case, rec, sess=None):
    pairs = [tuple(p) for p in case["pairs"]]
    s = sess or fresh_session()
    if s.boot_failed:
        rec.violation("bootstrap-failed", "bootstrap", {"exc": s.exceptions}, case)
        rec.case(case)
        return s
    before = len(s.transport.writes)
    args = []
    for k, v in pairs:
        args.extend([k, v])
    exc = None
    d = None
    try:
        d = s.proto.set_conf(*args)
    except Exception as e:
        exc = e
    written = b"".join(x for (_, x) in s.transport.writes[before:])
    # answer it so the session can be reused
    s.run()
    values = [v for (_, v) in pairs]
    keys = [k for (k, _) in pairs]
    icls = value_class(values)
    if not all(key_ok(k) for k in keys):
        icls = "key-not-encodable+" + icls
    refused = False
    if d is not None:
        o = s.aud.watch(d, "setconf")
        if o.fired and not o.ok and written == b"":
            refused = True
    if exc is not None and written == b"":
        refused = True
    rec.case(case)
    # clause 1: at most one command line
    body = written[:-2] if written.endswith(b"\r\n") else written
    if written and (not written.endswith(b"\r\n") or b"\n" in body or b"\r" in body):
        rec.violation("more-than-one-line", icls,
                      {"written": written, "lines": [x.decode("latin1") for x in written.split(b"\n")]}, case)
        # re-sync the session: extra lines were answered by the scripted server already
        return None
    if refused:
        rec.count("refused")
        if icls.startswith("key-not-encodable") or icls == "value-has-cr-or-lf":
            return s
        rec.violation("encodable-value-refused", icls, {"exc": repr(exc)}, case)
        return s
    if not written:
        rec.violation("nothing-written", icls, {"exc": repr(exc)}, case)
        return s
    if icls.startswith("key-not-encodable"):
        rec.count("unencodable_key_sent_on_one_line")
        return s
    line = body.decode("ascii", "replace")
    if not line.startswith("SETCONF "):
        rec.violation("not-a-setconf", icls, {"line": line}, case)
        return s
    rec.count("lines_decoded")
    try:
        got = kvline.parse(line[len("SETCONF "):])
    except kvline.KvError as e:
        rec.violation("does-not-parse", icls, {"line": line, "error": str(e)}, case)
        return s
    want = [(k, str(v)) for (k, v) in pairs]
    got_n = [(k, "" if v is None else v) for (k, v) in got]
    if got_n != want:
        rec.violation("roundtrip-mismatch", icls, {"line": line, "decoded": got, "want": want}, case)
    return s


def run_queued(case, rec):
    """several set_conf calls while an earlier command is still unanswered: each call must
    still produce its own line, carrying exactly its own pairs, in call order"""
    s = fresh_session()
    rec.case(case)
    if s.boot_failed:
        rec.violation("bootstrap-failed", "bootstrap", {"exc": s.exceptions}, case)
        return
    before = len(s.transport.writes)
    calls = [[tuple(p) for p in c] for c in case["calls"]]
    icls = value_class([v for c in calls for (_, v) in c]) + "+calls-queued-behind-%s" % case["blocker"]
    outs = []
    try:
        if case["blocker"] == "command":
            s.aud.watch(s.proto.queue_command("SIGNAL NEWNYM"), "blocker")
        elif case["blocker"] == "setconf":
            s.aud.watch(s.proto.set_conf("ORPort", "0"), "blocker")
        for c in calls:
            args = []
            for k, v in c:
                args.extend([k, v])
            outs.append(s.aud.watch(s.proto.set_conf(*args), "setconf"))
    except Exception as e:
        rec.violation("encodable-value-refused", icls, {"exc": repr(e)}, case)
        return
    s.run()
    s.finish()
    written = b"".join(x for (_, x) in s.transport.writes[before:])
    lines = written.split(b"\r\n")
    if lines[-1] != b"":
        rec.violation("more-than-one-line", icls, {"written": written}, case)
        return
    lines = [l.decode("ascii", "replace") for l in lines[:-1]]
    if case["blocker"] != "none":
        lines = lines[1:]
    rec.count("queued_calls", len(calls))
    if len(lines) != len(calls):
        rec.violation("not-one-line-per-call", icls, {"lines": lines, "calls": len(calls)}, case)
        return
    for line, c, o in zip(lines, calls, outs):
        rec.count("lines_decoded")
        try:
            got = kvline.parse(line[len("SETCONF "):]) if line.startswith("SETCONF ") else None
        except kvline.KvError as e:
            rec.violation("does-not-parse", icls, {"line": line, "error": str(e)}, case)
            continue
        want = [(k, str(v)) for (k, v) in c]
        if got is None or [(k, "" if v is None else v) for (k, v) in got] != want:
            rec.violation("roundtrip-mismatch", icls, {"line": line, "decoded": got, "want": want}, case)
        if o.fired != 1 or not o.ok:
            rec.violation("call-not-resolved-by-its-own-reply", icls, {"outcome": o.describe()}, case)


def run_shard(spec, rec):
    mode = spec["mode"]
    sess = None

    def go(case):
        nonlocal sess
        sess = run_case(case, rec, sess)
        if sess is not None and len(sess.transport.writes) > 400:
            sess.finish()
            sess = None

    if mode == "exhaustive":
        L = spec["maxlen"]
        allv = [""]
        for n in range(1, L + 1):
            allv.extend("".join(t) for t in itertools.product(ALPHA, repeat=n))
        part = [v for i, v in enumerate(allv) if i % spec["of"] == spec["part"]]
        for i, v in enumerate(part):
            # the value alone, first of two, last of two, middle of three
            shape = i % 4
            if shape == 0:
                pairs = [("Log", v)]
            elif shape == 1:
                pairs = [("Log", v), ("ORPort", "0")]
            elif shape == 2:
                pairs = [("SocksPort", "9050"), ("Log", v)]
            else:
                pairs = [("SocksPort", "9050"), ("Log", v), ("ORPort", 0)]
            case = {"pairs": pairs}
            go(case)
            if i < 3:
                rec.sample(case)
        rec.enumerated("all strings of length <=%d over {a,SP,TAB,\",\\,=,CR,LF} as a value" % L)
        rec.count("exhaustive_values", len(part))
    elif mode == "keys":
        # keys that cannot be a kvline key: every critical character at the start / in the middle /
        # at the end of an otherwise valid key, in the first / a later pair
        crit = [" ", "\t", "\r", "\n", "\r\n", "=", "\x0b", "\x0c", "\n\r", " \n"]
        n = 0
        for base in ("Log", "SocksPort"):
            for c in crit:
                for k in (c + base, base[:2] + c + base[2:], base + c, base + c + c):
                    for pairs in ([(k, "v")], [("ORPort", "0"), (k, "x y")], [(k, ""), ("ORPort", "0")]):
                        go({"pairs": pairs})
                        n += 1
        go({"pairs": [("", "v")]})
        # keys that ARE legal kvline keys although they look odd: they must arrive as given
        odd = ['a"b', '"Log"', "a\\b", "Log\\", "Log\x7f", "Lo\x01g", "Log%", "Log%%", "%s", "Log%d", "%(x)s", "{0}", "{}", "{us}",
               "Log'", "Lo,g", "a/b", "__X", "-", "+Log", "/Log"]
        for k in odd:
            for pairs in ([(k, "v")], [("ORPort", "0"), (k, "x y")], [(k, ""), ("ORPort", "0")], [(k, 5), (k, "two")]):
                go({"pairs": pairs})
                rec.count("odd_but_legal_key_cases")
        rec.count("unencodable_key_cases", n + 1)
        rec.enumerated("critical character x position in key x pair position")
    elif mode == "literals":
        # values that read like markers txtorcon or Tor use elsewhere; written as source literals
        # (interned objects) and as equal strings assembled at run time
        n = 0
        for lit in ["DEFAULT", "default", "NEVER", "auto", "AUTO", "0", "1", "True", "False", "None", "NULL", "OK",
                    "250 OK", "SETCONF", "=", "{}", "<default>", "NEW:BEST", "DISCARD"]:
            for v in (lit, "".join(list(lit))):
                for pairs in ([("ContactInfo", v)], [("SocksPort", "9050"), ("Log", v)], [("Log", v), ("ORPort", "0")]):
                    go({"pairs": pairs})
                    n += 1
        rec.count("marker_literal_cases", n)
        rec.enumerated("19 marker-like literals x interned/assembled x 3 pair positions")
        # values that compare (and hash) equal but print differently, sent one after the other for the same key
        # in this one process: each call must carry the text of ITS value (anything memoised by ==/hash mixes them)
        n = 0
        for group in ([1, True, 1.0, "1"], [0, False, 0.0, "0"], [2, 2.0, "2"], [-1, -1.0]):
            for a, b in itertools.permutations(group, 2):
                for key in ("ORPort", "Log"):
                    for first, second in (([(key, a)], [(key, b)]), ([("SocksPort", "9050"), (key, a)], [(key, b), ("ContactInfo", "x")])):
                        go({"pairs": first, "history": "first of an equal-but-differently-printed pair"})
                        go({"pairs": second, "history": ["same key sent just before with", repr(a)]})
                        n += 1
        rec.count("equal_but_differently_printed_value_pairs", n)
        rec.enumerated("ordered pairs of ==-equal values of different type (int/bool/float/str) x 2 keys x 2 pair positions, back to back")
    elif mode == "control":
        # every C0 control character and DEL: alone, inside a word, next to a space / quote / backslash
        n = 0
        for code in list(range(0, 0x20)) + [0x7f]:
            c = chr(code)
            for v in (c, "a" + c + "b", c + " x", "x " + c, c + '"', "\\" + c, c + c, "v" + c):
                for pairs in ([("Log", v)], [("SocksPort", "9050"), ("Log", v), ("ORPort", 0)]):
                    go({"pairs": pairs})
                    n += 1
        rec.count("control_char_cases", n)
        rec.enumerated("every C0 control character and DEL x 8 contexts x 2 pair positions")
    elif mode == "long":
        # a command far beyond Tor's MAX_COMMAND_LINE_LENGTH is still ONE line (Tor will refuse it;
        # sending a slice of the pairs in each of several commands would apply half of a change)
        for sizes in spec["sizes"]:
            pairs = [(KEYS[i % len(KEYS)], "xyz"[i % 3] * n) for i, n in enumerate(sizes)]
            case = {"pairs": "%d pairs with values of %s bytes" % (len(sizes), sizes), "long": sizes}
            s = fresh_session()
            before = len(s.transport.writes)
            args = []
            for k, v in pairs:
                args.extend([k, v])
            try:
                s.proto.set_conf(*args)
            except Exception as e:
                rec.count("refused")
            written = b"".join(x for (_, x) in s.transport.writes[before:])
            s.run()
            written_all = b"".join(x for (_, x) in s.transport.writes[before:])
            s.finish()
            rec.case(case)
            rec.count("long_commands")
            nlines = written_all.count(b"\r\n")
            if nlines > 1 or (written_all and not written_all.endswith(b"\r\n")):
                rec.violation("more-than-one-line", "total-length-%s" % ("above-1MiB" if sum(sizes) > (1 << 20) else "below-1MiB"),
                              {"lines": nlines, "first": written_all[:80], "sizes": sizes}, case)
            elif nlines == 1:
                rec.count("lines_decoded")
                got = kvline.parse(written_all[:-2].decode("ascii")[len("SETCONF "):])
                if [(k, v) for (k, v) in got] != [(k, v) for (k, v) in pairs]:
                    rec.violation("roundtrip-mismatch", "total-length-above-1MiB", {"sizes": sizes, "decoded_pairs": len(got)}, case)
    elif mode == "queued":
        for i in range(spec["n"]):
            rnd = gen.rnd_for(spec["seed"], "C12q", spec["shard"], i)
            calls = []
            for _ in range(rnd.choice([1, 2, 2, 3, 3, 4])):
                pairs = []
                for _ in range(rnd.randint(1, 3)):
                    r = rnd.random()
                    if r < 0.15:
                        v = rnd.randint(0, 70000)
                    elif r < 0.6:
                        v = "".join(rnd.choice(["a", " ", "\t", '"', "\\", "=", "b", "1", ","]) for _ in range(rnd.randint(0, 6)))
                    else:
                        v = "".join(rnd.choice(gen.PRINTABLE) for _ in range(rnd.randint(0, 30)))
                    pairs.append((rnd.choice(KEYS[:3]) if rnd.random() < 0.6 else rnd.choice(KEYS), v))
                calls.append(pairs)
            case = {"calls": calls, "blocker": rnd.choice(["command", "command", "setconf", "none"]), "queued": True}
            run_queued(case, rec)
            if i < 2:
                rec.sample(case)
    elif mode == "random":
        for i in range(spec["n"]):
            rnd = gen.rnd_for(spec["seed"], "C12", spec["shard"], i)
            n = rnd.randint(1, 6)
            pairs = []
            for _ in range(n):
                r = rnd.random()
                if r < 0.1:
                    v = rnd.randint(-5, 70000)
                elif r < 0.15:
                    v = rnd.random() < 0.5
                elif r < 0.5:
                    v = "".join(rnd.choice(ALPHA + ["b", "1", "/", ":", ","]) for _ in range(rnd.randint(0, 8)))
                elif r < 0.56:
                    v = "".join(rnd.choice(ALPHA + ["\x07", "\x08", "\x0b", "\x0c", "\x1b", "\x7f", "\x01", "z"]) for _ in range(rnd.randint(1, 8)))
                else:
                    ln = rnd.choice([1, 3, 10, 40, 200])
                    v = "".join(rnd.choice(gen.PRINTABLE) for _ in range(rnd.randint(0, ln)))
                k = rnd.choice(KEYS)
                if rnd.random() < 0.02:
                    k = rnd.choice(["Bad Key", "K=1", "", "A\r\nSIGNAL HALT", "A\tB"])
                pairs.append((k, v))
            case = {"pairs": pairs}
            go(case)
            if i < 2:
                rec.sample(case)


def replay(case, rec):
    if case.get("long"):
        return run_shard({"mode": "long", "sizes": [case["long"]]}, rec)
    if case.get("queued"):
        return run_queued(case, rec)
    run_case(case, rec)


def plan(tier, seed):
    if tier == "quick":
        sp = [{"mode": "exhaustive", "maxlen": 3, "part": i, "of": 4} for i in range(4)]
        sp += [{"mode": "keys"}, {"mode": "control"}, {"mode": "literals"},
               {"mode": "long", "sizes": [[600000, 600000], [1100000], [30] * 40000]}]
        sp += [{"mode": "random", "n": 700} for _ in range(9)]
        sp += [{"mode": "queued", "n": 250} for _ in range(2)]
    else:
        sp = [{"mode": "exhaustive", "maxlen": 4, "part": i, "of": 8} for i in range(8)]
        sp += [{"mode": "keys"}, {"mode": "control"}, {"mode": "literals"},
               {"mode": "long", "sizes": [[600000, 600000], [1100000], [30] * 40000, [400000] * 6, [1 << 20, 5], [5, 1 << 20]]}]
        sp += [{"mode": "random", "n": 25000} for _ in range(12)]
        sp += [{"mode": "queued", "n": 8000} for _ in range(4)]
    return sp
