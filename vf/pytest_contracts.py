"""pytest plugin: run the repository's OWN test suite with the icontract invariants attached.

    cd /repo && PYTHONPATH=/verif /venv/bin/python -m pytest -q -p no:cacheprovider -p vf.pytest_contracts

A contract that fires there is either too strict or a defect the tests do not assert; the
summary printed at the end lists evaluations and breaches (with the test that was running).
"""
import os
import sys

sys.path.insert(0, os.environ.get("VERIF_REPO", "/repo"))
sys.path.insert(0, os.path.join(os.path.dirname(os.path.dirname(os.path.abspath(__file__))), ".deps"))
from vf import contracts      # noqa: E402

_current = [None]
_found = []


def pytest_configure(config):
    contracts.install_protocol()


def pytest_runtest_setup(item):
    _current[0] = item.nodeid


def pytest_runtest_teardown(item, nextitem):
    while contracts.BREACHES:
        name, detail = contracts.BREACHES.pop(0)
        _found.append((item.nodeid, name, detail))


def pytest_terminal_summary(terminalreporter):
    tr = terminalreporter
    tr.write_line("vf contracts: evaluations %s" % dict(contracts.EVALS))
    tr.write_line("vf contracts: %d breach(es)" % len(_found))
    seen = set()
    for (test, name, detail) in _found:
        if (test, name) not in seen:
            seen.add((test, name))
            tr.write_line("  %s :: %s %s" % (test, name, str(detail)[:160]))
