"""Fake reactor: every source of reactor-level stimuli is owned by the harness.

Nothing here opens a socket, forks a process or looks at the wall clock.  The
real txtorcon code gets an object that *provides* the Twisted reactor interfaces
it asks for (``IReactorCore.providedBy(reactor)``, ``IReactorTime(reactor)``,
``IReactorProcess``, ``IReactorTCP``, ``IReactorUNIX``); the harness decides
when anything happens.

Quick reference
---------------
``r = FakeReactor()``                       (a ``twisted.internet.task.Clock``)

time      ``r.callLater / r.seconds / r.getDelayedCalls`` (Clock), ``r.advance(dt)``,
          ``r.flush()`` = ``advance(0)`` until no zero-delay call is left.
core      ``r.addSystemEventTrigger(phase, event, f, *a, **kw) -> id``,
          ``r.removeSystemEventTrigger(id)``, ``r.fireSystemEvent("shutdown")`` runs the
          before/during/after triggers once, in order, *catching* what they raise:
          returns ``[(phase, callable, exception|None)]``, also kept in ``r.trigger_log``;
          ``r.triggers(event)`` lists what is registered; ``r.callWhenRunning(f)`` calls
          at once (``r.running`` is True) or at ``r.run()``; ``r.stop()`` fires "shutdown".
process   ``r.spawnProcess(pp, exe, args, env, path, ...) -> FakeProcess`` (also appended to
          ``r.processes``); the process protocol gets ``makeConnection(transport)``.
          FakeProcess records ``signals`` (``signalProcess`` raises ``ProcessExitedAlready``
          once ended), ``stdin_closed``, ``lose_calls``, ``closed_fds``, ``stdin`` writes.
          Harness side: ``p.emit_out(b)``, ``p.emit_err(b)``, ``p.emit_fd(fd, b)``,
          ``p.exit(code=0)`` / ``p.exit(code=1)`` / ``p.exit(signal=15)`` (Twisted's
          order: pipes close, ``processExited``, ``processEnded``).  ``p.exit(..., pipes_open=True)``
          delivers only ``processExited`` (the child is reaped but something still holds its
          stdio pipes); ``processEnded`` follows at ``p.pipes_closed()`` - or, like in Twisted,
          in the next reactor turn (``callLater(0)``) after the protocol calls ``loseConnection()``
          on the exited process.  ``p.alive`` (not reaped yet) / ``p.ended`` (processEnded delivered).  Exceptions raised by
          the process protocol are caught like a reactor would, kept in ``p.errors`` and
          returned.  ``p.on_signal = f(proc, name)`` lets a model react to signals.
listen    ``r.listenTCP(port, factory, backlog, interface) -> FakePort`` (``r.ports``):
          ``.interface .port .factory .open .stop_calls``, ``getHost()``,
          ``stopListening() -> Deferred`` (fired at once unless ``r.hold_stop_listening``,
          then ``port.finish_stop()``), ``port.accept(transport) -> server protocol``.
          Port 0 gets the next number from ``r.next_port``; ``r.refuse_listen(port_or_pred)``
          makes ``listenTCP`` raise ``CannotListenError`` like a bound port does.
          ``r.listenUNIX(address, factory, ...)`` likewise (``.address``).
connect   ``r.connectTCP(host, port, factory, timeout, bindAddress) -> ConnAttempt``,
          ``r.connectUNIX(address, factory, timeout, checkPID) -> ConnAttempt``; all in
          ``r.connections``, ``r.pending_connections()``.  Nothing happens until the
          harness resolves one: ``a.succeed(transport) -> protocol`` (buildProtocol +
          makeConnection; the protocol is what ``factory.buildProtocol`` returned, for
          endpoint-made connections a wrapper whose ``dataReceived/connectionLost``
          forward) or ``a.fail(ConnectionRefusedError())`` (any ``ConnectError``;
          ``clientConnectionFailed``).  ``a.lose(reason)`` later drops an established
          connection (``connectionLost`` + ``clientConnectionLost``).  ConnAttempt is the
          ``IConnector``: ``stopConnecting()`` (-> state "cancelled", factory told with
          ``UserError``), ``disconnect()``, ``getDestination()``.

Not provided: threads, DNS (``resolve`` answers the name itself), UDP, SSL, fd readers.
"""
from twisted.internet import address, defer, error, task
from twisted.internet.interfaces import (
    IConnector, IListeningPort, IProcessTransport, IReactorCore, IReactorProcess,
    IReactorTCP, IReactorTime, IReactorUNIX,
)
from twisted.python import failure
from zope.interface import implementer


# ---------------------------------------------------------------------------
# process

@implementer(IProcessTransport)
class FakeProcess(object):
    """Process transport double.  txtorcon side: IProcessTransport.  Harness side:
    emit_out / emit_err / emit_fd / exit."""

    def __init__(self, reactor, proto, executable, args, env, path, pid, extra=None):
        self.reactor = reactor
        self.proto = proto
        self.executable = executable
        self.args = list(args or ())
        self.env = env
        self.path = path
        self.pid = pid
        self.extra = extra or {}
        self.alive = True
        self.ended = False           # processEnded delivered
        self._end_scheduled = False
        self.exit_reason = None
        self.signals = []            # every accepted signalProcess(name)
        self.signals_after_exit = [] # attempts after the process was gone
        self.stdin_closed = False
        self.stdin = []              # write()/writeToChild(0, ...) data
        self.closed_fds = set()
        self.lose_calls = 0
        self.errors = []             # (callback name, exception) raised by the protocol
        self.on_signal = None        # f(proc, name) called for each accepted signal
        self.log = []                # (what, detail) in order

    # -- IProcessTransport ------------------------------------------------
    def signalProcess(self, signalID):
        if not self.alive:
            self.signals_after_exit.append(signalID)
            raise error.ProcessExitedAlready()
        self.signals.append(signalID)
        self.log.append(("signal", signalID))
        if self.on_signal is not None:
            self.on_signal(self, signalID)

    def closeStdin(self):
        self.stdin_closed = True
        self.closed_fds.add(0)
        self.log.append(("closeStdin", None))

    def closeStdout(self):
        self.closed_fds.add(1)

    def closeStderr(self):
        self.closed_fds.add(2)

    def closeChildFD(self, fd):
        self.closed_fds.add(fd)
        if fd == 0:
            self.stdin_closed = True

    def loseConnection(self):
        self.lose_calls += 1
        self.closed_fds.update((0, 1, 2))
        self.stdin_closed = True
        self.log.append(("loseConnection", None))
        if not self.alive and not self.ended and not self._end_scheduled:
            # our ends of the pipes are closed now: the reactor notices in its next turn and, the
            # child being reaped already, reports the end
            self._end_scheduled = True
            self.reactor.callLater(0, self.pipes_closed)

    def write(self, data):
        self.stdin.append(data)

    def writeSequence(self, seq):
        self.stdin.append(b"".join(seq))

    def writeToChild(self, fd, data):
        self.stdin.append(data)

    def getPeer(self):
        return ("process", self.pid)

    def getHost(self):
        return ("process", self.pid)

    # -- harness side -----------------------------------------------------
    def _call(self, name, *a):
        try:
            getattr(self.proto, name)(*a)
        except Exception as e:                # a reactor would log it and go on
            self.errors.append((name, e))
            return e
        return None

    def emit_fd(self, fd, data):
        """the child wrote `data` on descriptor `fd` (1 = stdout, 2 = stderr)"""
        assert self.alive, "a dead process writes nothing"
        return self._call("childDataReceived", fd, data)

    def emit_out(self, data):
        return self.emit_fd(1, data)

    def emit_err(self, data):
        return self.emit_fd(2, data)

    def exit(self, code=None, signal=None, pipes_open=False):
        """the child is gone: exit status `code`, or killed by `signal`.
        Twisted's order: pipes close, processExited, processEnded.  With `pipes_open` only
        processExited is delivered now (see pipes_closed)."""
        assert self.alive, "process already ended"
        self.alive = False
        if signal is None and not code:
            reason = failure.Failure(error.ProcessDone(0))
        else:
            status = (signal if signal is not None else (code << 8))
            reason = failure.Failure(error.ProcessTerminated(
                exitCode=None if signal is not None else code, signal=signal, status=status))
        self.exit_reason = reason
        self.log.append(("exit", (code, signal)))
        errs = []
        if pipes_open:
            errs.append(self._call("processExited", reason))
            return [e for e in errs if e is not None]
        for fd in (0, 1, 2):
            errs.append(self._call("childConnectionLost", fd))
        errs.append(self._call("processExited", reason))
        self.ended = True
        errs.append(self._call("processEnded", reason))
        return [e for e in errs if e is not None]

    def pipes_closed(self):
        """the last holder of the dead child's stdio pipes let go: processEnded is delivered"""
        assert not self.alive, "the process has not exited"
        if self.ended:
            return []
        self.ended = True
        self.log.append(("pipes_closed", None))
        errs = [self._call("childConnectionLost", fd) for fd in (0, 1, 2)]
        errs.append(self._call("processEnded", self.exit_reason))
        return [e for e in errs if e is not None]


# ---------------------------------------------------------------------------
# listening ports

@implementer(IListeningPort)
class FakePort(object):
    def __init__(self, reactor, kind, port, factory, interface="", backlog=50, addr=None):
        self.reactor = reactor
        self.kind = kind                 # "tcp" | "unix"
        self.port = port                 # number (tcp)
        self.address = addr              # path (unix)
        self.interface = interface
        self.factory = factory
        self.backlog = backlog
        self.open = False
        self.ever_opened = False
        self.stop_calls = 0
        self._stopping = None
        self.accepted = []

    def startListening(self):
        if not self.open:
            self.open = True
            self.ever_opened = True
            self.factory.doStart()

    def stopListening(self):
        self.stop_calls += 1
        if self._stopping is not None:
            return self._stopping
        d = defer.Deferred()
        if not self.open:
            d.callback(None)
            return d
        self._stopping = d
        if not self.reactor.hold_stop_listening:
            self.finish_stop()
        return d

    def finish_stop(self):
        """the port is really closed now (fires the stopListening Deferred)"""
        d, self._stopping = self._stopping, None
        if self.open:
            self.open = False
            self.factory.doStop()
        if d is not None:
            d.callback(None)

    def getHost(self):
        if self.kind == "unix":
            return address.UNIXAddress(self.address)
        host = self.interface or "0.0.0.0"
        if ":" in host:
            return address.IPv6Address("TCP", host, self.port)
        return address.IPv4Address("TCP", host, self.port)

    def accept(self, transport, peer=None):
        """an inbound connection: build the server-side protocol and connect it"""
        assert self.open
        proto = self.factory.buildProtocol(
            peer or address.IPv4Address("TCP", "127.0.0.1", 50000 + len(self.accepted)))
        if proto is not None:
            proto.makeConnection(transport)
        self.accepted.append(proto)
        return proto


# ---------------------------------------------------------------------------
# outgoing connections

@implementer(IConnector)
class ConnAttempt(object):
    """one connectTCP/connectUNIX call; resolved by the harness"""

    def __init__(self, reactor, kind, host, port, factory, timeout, bind=None):
        self.reactor = reactor
        self.kind = kind                 # "tcp" | "unix"
        self.host = host                 # host (tcp) / path (unix)
        self.port = port
        self.factory = factory
        self.timeout = timeout
        self.bindAddress = bind
        self.state = "pending"           # pending | connected | failed | cancelled | lost
        self.protocol = None
        self.transport = None
        self.reason = None
        self._factory_started = False

    # -- IConnector ---------------------------------------------------------
    def connect(self):
        if not self._factory_started:
            self.factory.doStart()
            self._factory_started = True
        self.state = "pending"
        self.factory.startedConnecting(self)

    def stopConnecting(self):
        if self.state != "pending":
            raise error.NotConnectingError("we're not trying to connect")
        self.state = "cancelled"
        self._failed(failure.Failure(error.UserError()))

    def disconnect(self):
        if self.state == "pending":
            self.stopConnecting()
        elif self.state == "connected" and self.transport is not None:
            self.transport.loseConnection()

    def getDestination(self):
        if self.kind == "unix":
            return address.UNIXAddress(self.host)
        return address.IPv4Address("TCP", self.host, self.port)

    # -- harness side ---------------------------------------------------------
    def succeed(self, transport, addr=None):
        """the connection is established over `transport`; returns the protocol"""
        assert self.state == "pending", self.state
        self.state = "connected"
        self.transport = transport
        self.protocol = self.factory.buildProtocol(addr or self.getDestination())
        if self.protocol is not None:
            self.protocol.makeConnection(transport)
        return self.protocol

    def fail(self, exc=None):
        """the attempt failed with `exc` (a ConnectError instance)"""
        assert self.state == "pending", self.state
        self.state = "failed"
        self._failed(failure.Failure(exc or error.ConnectionRefusedError()))

    def _failed(self, reason):
        self.reason = reason
        self.factory.clientConnectionFailed(self, reason)
        if self.state != "pending" and self._factory_started:
            self.factory.doStop()
            self._factory_started = False

    def lose(self, exc=None):
        """an established connection goes away"""
        assert self.state == "connected", self.state
        self.state = "lost"
        reason = failure.Failure(exc or error.ConnectionDone())
        self.reason = reason
        if self.protocol is not None:
            self.protocol.connectionLost(reason)
        self.factory.clientConnectionLost(self, reason)
        if self.state != "pending" and self._factory_started:
            self.factory.doStop()
            self._factory_started = False


# ---------------------------------------------------------------------------
# the reactor

@implementer(IReactorCore, IReactorTime, IReactorProcess, IReactorTCP, IReactorUNIX)
class FakeReactor(task.Clock):
    def __init__(self, first_port=41000, first_pid=4242):
        task.Clock.__init__(self)
        self.running = True
        self.next_port = first_port
        self.next_pid = first_pid
        self.processes = []
        self.ports = []
        self.connections = []
        self.hold_stop_listening = False
        self._refuse = []
        self._triggers = {}              # id -> (phase, event, f, a, kw)
        self._next_trigger = 1
        self.trigger_log = []            # (event, phase, callable, exception|None)
        self.fired_events = []
        self._when_running = []
        self.spawn_hook = None           # f(FakeProcess) right after makeConnection

    # -- IReactorTime extras ------------------------------------------------
    def flush(self, limit=1000):
        """run zero-delay calls until none is due"""
        n = 0
        while any(c.getTime() <= self.seconds() for c in self.getDelayedCalls()):
            self.advance(0)
            n += 1
            if n > limit:
                raise RuntimeError("FakeReactor.flush: calls keep rescheduling")
        return n

    # -- IReactorCore -------------------------------------------------------
    def addSystemEventTrigger(self, phase, eventType, f, *a, **kw):
        assert phase in ("before", "during", "after"), phase
        assert callable(f)
        tid = self._next_trigger
        self._next_trigger += 1
        self._triggers[tid] = (phase, eventType, f, a, kw)
        return tid

    def removeSystemEventTrigger(self, triggerID):
        if triggerID not in self._triggers:
            raise KeyError(triggerID)
        del self._triggers[triggerID]

    def triggers(self, eventType=None):
        return [(tid, t[0], t[1], t[2]) for tid, t in sorted(self._triggers.items())
                if eventType is None or t[1] == eventType]

    def fireSystemEvent(self, eventType):
        """run (and consume) the triggers of `eventType`; exceptions are recorded, not raised.
        'before' triggers returning a Deferred are not waited for (recorded as returned)."""
        self.fired_events.append(eventType)
        out = []
        for phase in ("before", "during", "after"):
            for tid, t in sorted(self._triggers.items()):
                if t[1] != eventType or t[0] != phase:
                    continue
                del self._triggers[tid]
                exc = None
                try:
                    t[2](*t[3], **t[4])
                except Exception as e:
                    exc = e
                out.append((phase, t[2], exc))
                self.trigger_log.append((eventType, phase, t[2], exc))
        return out

    def callWhenRunning(self, f, *a, **kw):
        if self.running:
            f(*a, **kw)
            return None
        self._when_running.append((f, a, kw))
        return self.addSystemEventTrigger("after", "startup", f, *a, **kw)

    def run(self, installSignalHandlers=True):
        self.running = True
        self.fireSystemEvent("startup")
        self._when_running = []

    def stop(self):
        if not self.running:
            raise error.ReactorNotRunning()
        self.fireSystemEvent("shutdown")
        self.running = False

    def crash(self):
        self.running = False

    def iterate(self, delay=0):
        self.advance(delay)

    def resolve(self, name, timeout=(1, 3, 11, 45)):
        return defer.succeed(name)

    # -- IReactorProcess ------------------------------------------------------
    def spawnProcess(self, processProtocol, executable, args=(), env=None, path=None,
                     uid=None, gid=None, usePTY=False, childFDs=None):
        pid = self.next_pid
        self.next_pid += 1
        p = FakeProcess(self, processProtocol, executable, args, env, path, pid,
                        {"uid": uid, "gid": gid, "usePTY": usePTY, "childFDs": childFDs})
        self.processes.append(p)
        processProtocol.makeConnection(p)
        if self.spawn_hook is not None:
            self.spawn_hook(p)
        return p

    # -- IReactorTCP / IReactorUNIX: listening ----------------------------------
    def refuse_listen(self, what):
        """`what`: a port number or predicate(port, interface) -> bool; matching
        listenTCP calls raise CannotListenError"""
        self._refuse.append(what if callable(what) else (lambda p, i, w=what: p == w))

    def listenTCP(self, port, factory, backlog=50, interface=""):
        for pred in self._refuse:
            if pred(port, interface):
                raise error.CannotListenError(interface, port, OSError(98, "Address already in use"))
        for lp in self.ports:
            if lp.kind == "tcp" and lp.open and port != 0 and lp.port == port \
                    and (lp.interface == interface or "" in (lp.interface, interface)):
                raise error.CannotListenError(interface, port, OSError(98, "Address already in use"))
        if port == 0:
            port = self.next_port
            self.next_port += 1
            while any(lp.open and lp.port == port for lp in self.ports if lp.kind == "tcp"):
                port = self.next_port
                self.next_port += 1
        lp = FakePort(self, "tcp", port, factory, interface, backlog)
        self.ports.append(lp)
        lp.startListening()
        return lp

    def listenUNIX(self, address, factory, backlog=50, mode=0o666, wantPID=0):
        lp = FakePort(self, "unix", None, factory, "", backlog, addr=address)
        self.ports.append(lp)
        lp.startListening()
        return lp

    def open_ports(self):
        return [lp for lp in self.ports if lp.open]

    # -- IReactorTCP / IReactorUNIX: connecting ---------------------------------
    def connectTCP(self, host, port, factory, timeout=30, bindAddress=None):
        a = ConnAttempt(self, "tcp", host, port, factory, timeout, bindAddress)
        self.connections.append(a)
        a.connect()
        return a

    def connectUNIX(self, address, factory, timeout=30, checkPID=0):
        a = ConnAttempt(self, "unix", address, None, factory, timeout)
        self.connections.append(a)
        a.connect()
        return a

    def pending_connections(self):
        return [a for a in self.connections if a.state == "pending"]
