"""MANIFEST.setup_cmd: build what the checks need from files on disk only."""
import importlib
import sys
from . import env


def main():
    ok = env.ensure_deps()
    env.setup()
    n = 0
    ran = []
    for name in ("kvline", "reply", "socks5", "consensus", "addrmodel", "addonion"):
        try:
            mod = importlib.import_module("vf.refs." + name)
        except ImportError:
            continue
        st = getattr(mod, "selftest", None)
        if st is not None:
            r = st()
            n += r if isinstance(r, int) else 1
            ran.append(name)
    import txtorcon
    print("setup: icontract %s; reference self-tests ok (%s; %d assertions); txtorcon from %s" % (
        "installed" if ok else "UNAVAILABLE", ", ".join(ran), n, txtorcon.__file__))
    return 0


if __name__ == "__main__":
    sys.exit(main())
