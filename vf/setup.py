"""MANIFEST.setup_cmd: build what the checks need from files on disk only."""
import sys
from . import env


def main():
    ok = env.ensure_deps()
    env.setup()
    from .refs import kvline, reply
    n = kvline.selftest() + reply.selftest()
    try:
        from .refs import socks5
        n += socks5.selftest()
    except ImportError:
        pass
    import txtorcon
    print("setup: icontract %s; reference self-tests %d ok; txtorcon from %s" % (
        "installed" if ok else "UNAVAILABLE", n, txtorcon.__file__))
    return 0


if __name__ == "__main__":
    sys.exit(main())
