"""Per-shard recorder: what a workload tells the driver about what it observed.

Everything a property module reports goes through one ``Recorder``:

* ``case(obj, nontrivial=True)``    one explored case (hashed for the distinct count)
* ``count(name, n=1)``              monitor event counters (writes seen, listener calls ...)
* ``seen(kind, value)``             distinct-value sets (FSM transitions, interleaving signatures ...)
* ``violation(clause, input_class, detail, case)``
* ``sample(obj)``                   cases written out into the evidence file

The result is a plain JSON-able dict; the driver merges the shards.
"""
import hashlib
import json
import sys
import time


def _norm(obj):
    if isinstance(obj, bytes):
        return {"__b": obj.hex()}
    if isinstance(obj, (list, tuple)):
        return [_norm(x) for x in obj]
    if isinstance(obj, dict):
        return {str(k): _norm(v) for k, v in sorted(obj.items(), key=lambda kv: str(kv[0]))}
    if isinstance(obj, (set, frozenset)):
        return sorted((_norm(x) for x in obj), key=repr)
    if isinstance(obj, (str, int, float, bool)) or obj is None:
        return obj
    return repr(obj)


def jsonable(obj):
    return _norm(obj)


def unjson(obj):
    """inverse of jsonable for bytes markers (tuples come back as lists)"""
    if isinstance(obj, dict):
        if set(obj.keys()) == {"__b"}:
            return bytes.fromhex(obj["__b"])
        return {k: unjson(v) for k, v in obj.items()}
    if isinstance(obj, list):
        return [unjson(x) for x in obj]
    return obj


def case_hash(obj):
    return hashlib.blake2b(
        json.dumps(_norm(obj), sort_keys=True, separators=(",", ":")).encode("utf8"),
        digest_size=8).hexdigest()


class Recorder(object):
    MAX_SAMPLES = 6
    MAX_VIOLATIONS_KEPT = 40      # full witnesses kept per shard
    MAX_SEEN = 4000

    def __init__(self, prop, shard_id="0"):
        self.prop = prop
        self.shard_id = shard_id
        self.evaluations = 0
        self.hashes = set()
        self.counters = {}
        self.seen_sets = {}
        self.samples = []
        self.violations = []
        self.violation_keys = {}
        self.notes = []
        self.t0 = time.time()
        self.exhaustive = {}

    # -- cases ---------------------------------------------------------
    def case(self, obj=None, nontrivial=True, h=None):
        self.evaluations += 1
        if nontrivial:
            self.hashes.add(h if h is not None else case_hash(obj))

    def sample(self, obj, force=False):
        if force or len(self.samples) < self.MAX_SAMPLES:
            self.samples.append(_norm(obj))

    def count(self, name, n=1):
        self.counters[name] = self.counters.get(name, 0) + n

    def seen(self, kind, value):
        s = self.seen_sets.setdefault(kind, set())
        if len(s) < self.MAX_SEEN:
            s.add(value if isinstance(value, str) else json.dumps(_norm(value), sort_keys=True))

    def note(self, text):
        if len(self.notes) < 20:
            self.notes.append(text)

    def enumerated(self, name, complete=True):
        """a finite space named `name` was enumerated completely by this shard"""
        self.exhaustive[name] = bool(complete) and self.exhaustive.get(name, True)

    # -- violations ----------------------------------------------------
    def violation(self, clause, input_class, detail, case):
        key = "%s/%s/%s" % (self.prop, clause, input_class)
        n = self.violation_keys.get(key, 0)
        self.violation_keys[key] = n + 1
        if n < 3 and len(self.violations) < self.MAX_VIOLATIONS_KEPT:
            self.violations.append({
                "key": key, "clause": clause, "input_class": input_class,
                "detail": _norm(detail), "case": _norm(case),
            })
        return key

    # -- result --------------------------------------------------------
    def result(self):
        return {
            "shard": self.shard_id,
            "evaluations": self.evaluations,
            "hashes": "".join(sorted(self.hashes)),
            "counters": self.counters,
            "seen": {k: sorted(v) for k, v in self.seen_sets.items()},
            "samples": self.samples,
            "violations": self.violations,
            "violation_keys": self.violation_keys,
            "notes": self.notes,
            "exhaustive": self.exhaustive,
            "wall_s": round(time.time() - self.t0, 3),
            "python": sys.version.split()[0],
        }
