"""Sharded driver: plan -> shards (subprocesses) -> merge -> verdict + evidence.

usage:  python -m vf.run <PROPERTY> [--tier quick|thorough] [--replay FILE]
                                    [--jobs N] [--keep-going]

exit 0  property held on everything explored (KNOWN-FINDING lines possible)
exit 1  VIOLATION property=<id> replay=<path>      (not listed in known_findings.json)
exit 2  INCONCLUSIVE property=<id> ...             (shard died / watchdog / deciding
                                                    monitor below its floor)
"""
import argparse
import importlib
import json
import os
import shutil
import subprocess
import sys
import tempfile
import time

from . import env
from .rec import case_hash

VERIF = env.VERIF
EVIDENCE_DIR = os.path.join(VERIF, "evidence")
REPLAY_DIR = os.path.join(VERIF, "replays")
KNOWN = os.path.join(VERIF, "known_findings.json")


def load_known():
    try:
        with open(KNOWN) as f:
            data = json.load(f)
    except FileNotFoundError:
        return {}
    out = {}
    for ent in data.get("findings", []):
        if ent.get("status") == "open":
            out[ent["key"]] = ent
    return out


def load_module(prop):
    return importlib.import_module("vf.props." + prop.lower())


def run_shards(prop, specs, jobs, scratch, hard_timeout):
    """run every spec in its own interpreter, `jobs` at a time"""
    pending = list(enumerate(specs))
    running = []
    results = [None] * len(specs)
    problems = []
    envv = dict(os.environ)
    envv["PYTHONHASHSEED"] = "0"
    envv["PYTHONDONTWRITEBYTECODE"] = "1"
    envv["TZ"] = "UTC"
    envv[env.GUARD] = "1"
    envv["PYTHONPATH"] = VERIF + os.pathsep + envv.get("PYTHONPATH", "")
    while pending or running:
        while pending and len(running) < jobs:
            idx, spec = pending.pop(0)
            sf = os.path.join(scratch, "spec%d.json" % idx)
            of = os.path.join(scratch, "out%d.json" % idx)
            ef = os.path.join(scratch, "err%d.txt" % idx)
            with open(sf, "w") as f:
                json.dump(spec, f)
            p = subprocess.Popen(
                [sys.executable, "-m", "vf.shard", prop, sf, of],
                cwd=VERIF, env=envv, stdout=open(ef, "w"), stderr=subprocess.STDOUT)
            running.append((idx, p, time.time(), of, ef,
                            spec.get("timeout_s", hard_timeout)))
        time.sleep(0.02)
        still = []
        for (idx, p, t0, of, ef, tmo) in running:
            rc = p.poll()
            if rc is None:
                if time.time() - t0 > tmo:
                    p.kill()
                    p.wait()
                    problems.append("shard %d: watchdog after %ds" % (idx, tmo))
                else:
                    still.append((idx, p, t0, of, ef, tmo))
                continue
            if rc != 0 or not os.path.exists(of):
                tail = ""
                try:
                    tail = open(ef).read()[-1500:]
                except Exception:
                    pass
                problems.append("shard %d: exit %s\n%s" % (idx, rc, tail))
                continue
            with open(of) as f:
                results[idx] = json.load(f)
        running = still
    return results, problems


def merge(results):
    m = {"evaluations": 0, "hashes": set(), "counters": {}, "seen": {},
         "samples": [], "violations": [], "violation_keys": {}, "notes": [],
         "exhaustive": {}, "reach": {}, "shards": 0, "shard_wall_s": 0.0}
    for r in results:
        if r is None:
            continue
        m["shards"] += 1
        m["shard_wall_s"] += r.get("wall_s", 0)
        m["evaluations"] += r["evaluations"]
        hs = r["hashes"]
        for i in range(0, len(hs), 16):
            m["hashes"].add(hs[i:i + 16])
        for k, v in r["counters"].items():
            m["counters"][k] = m["counters"].get(k, 0) + v
        for k, v in r["seen"].items():
            m["seen"].setdefault(k, set()).update(v)
        for k, v in r.get("reach", {}).items():
            m["reach"][k] = m["reach"].get(k, 0) + v
        if len(m["samples"]) < 8:
            m["samples"].extend(r["samples"][:2])
        m["violations"].extend(r["violations"])
        for k, v in r["violation_keys"].items():
            m["violation_keys"][k] = m["violation_keys"].get(k, 0) + v
        m["notes"].extend(r["notes"])
        for k, v in r.get("exhaustive", {}).items():
            m["exhaustive"][k] = v and m["exhaustive"].get(k, True)
    return m


def main(argv=None):
    ap = argparse.ArgumentParser()
    ap.add_argument("prop")
    ap.add_argument("--tier", default=os.environ.get("VERIF_TIER", "quick"),
                    choices=["quick", "thorough"])
    ap.add_argument("--replay")
    ap.add_argument("--jobs", type=int, default=int(os.environ.get("VERIF_JOBS", "16")))
    ap.add_argument("--no-evidence", action="store_true")
    args = ap.parse_args(argv)
    prop = args.prop.upper()
    seed = int(os.environ.get("VERIF_SEED", "0") or 0)
    t0 = time.time()
    env.ensure_deps()
    env.setup()
    mod = load_module(prop)

    if args.replay:
        return do_replay(prop, mod, args.replay)

    specs = mod.plan(args.tier, seed)
    for i, s in enumerate(specs):
        s.setdefault("shard", str(i))
        s.setdefault("tier", args.tier)
        s.setdefault("seed", seed)
    hard = 900 if args.tier == "quick" else 3600
    scratch = tempfile.mkdtemp(prefix="vf-%s-" % prop.lower())
    try:
        results, problems = run_shards(prop, specs, args.jobs, scratch, hard)
    finally:
        shutil.rmtree(scratch, ignore_errors=True)
    m = merge(results)
    wall = time.time() - t0

    known = load_known()
    new_keys = [k for k in m["violation_keys"] if k not in known]
    known_seen = [k for k in m["violation_keys"] if k in known]

    # floors: the deciding monitors must actually have observed something
    floors = getattr(mod, "FLOORS", {}).get(args.tier, {})
    low = []
    for name, floor in floors.items():
        if name == "evaluations":
            got = m["evaluations"]
        elif name == "distinct_nontrivial":
            got = len(m["hashes"])
        elif name.startswith("reach:"):
            got = m["reach"].get(name[6:], 0)
        else:
            got = m["counters"].get(name, 0)
        if got < floor:
            low.append("%s=%d<%d" % (name, got, floor))

    replay_path = None
    if new_keys:
        # witnesses found on another checkout (mutants, seeded changes) go to a scratch area
        rdir = prop if os.path.realpath(env.REPO) == "/repo" else os.path.join("_scratch", prop)
        os.makedirs(os.path.join(REPLAY_DIR, rdir), exist_ok=True)
        written = set()
        for v in m["violations"]:
            if v["key"] in new_keys and v["key"] not in written and len(written) < 12:
                written.add(v["key"])
                p = os.path.join(REPLAY_DIR, rdir, case_hash([v["key"], v["case"]]) + ".json")
                with open(p, "w") as f:
                    json.dump({"property": prop, "key": v["key"], "detail": v["detail"],
                               "case": v["case"], "seed": seed, "tier": args.tier}, f, indent=1)
                v["replay"] = p
                if replay_path is None:
                    replay_path = p

    if not args.no_evidence:
        write_evidence(prop, mod, args.tier, seed, m, wall, problems, low,
                       new_keys, known_seen, known)

    for k in sorted(known_seen):
        print("KNOWN-FINDING: property=%s %s -- %s (seen %d times)" % (
            prop, k, known[k].get("what", ""), m["violation_keys"][k]))
    print("%s %s: %d cases (%d distinct non-trivial), %d shards, %.1fs; counters: %s" % (
        prop, args.tier, m["evaluations"], len(m["hashes"]), m["shards"], wall,
        ", ".join("%s=%d" % kv for kv in sorted(m["counters"].items())[:14])))
    if new_keys:
        done = set()
        for v in m["violations"]:
            if v["key"] in new_keys and v["key"] not in done:
                done.add(v["key"])
                print("  violated clause: %s (x%d): %s" % (
                    v["key"], m["violation_keys"][v["key"]],
                    json.dumps(v["detail"])[:600]))
                print("VIOLATION property=%s replay=%s" % (prop, v.get("replay", replay_path)))
        for k in new_keys:
            if k not in done:
                print("  violated clause: %s (x%d)" % (k, m["violation_keys"][k]))
                print("VIOLATION property=%s replay=%s" % (prop, replay_path))
        return 1
    if problems or low:
        for p in problems:
            print("  problem: " + p)
        print("INCONCLUSIVE property=%s %s" % (prop, "; ".join(low) or "shard failure"))
        return 2
    return 0


def write_evidence(prop, mod, tier, seed, m, wall, problems, low, new_keys, known_seen, known):
    os.makedirs(EVIDENCE_DIR, exist_ok=True)
    verdict = "violated" if new_keys else ("inconclusive" if (problems or low) else "held-on-observed")
    exhaustive = bool(m["exhaustive"]) and all(m["exhaustive"].values())
    cov = {
        "evaluations": m["evaluations"],
        "distinct_nontrivial": len(m["hashes"]),
        "rule": getattr(mod, "RULE", ""),
        "samples": m["samples"][:8] or ["(no sample recorded)"],
        "exhaustive": exhaustive,
        "enumerated_completely": sorted(k for k, v in m["exhaustive"].items() if v),
        "monitor_event_counts": dict(sorted(m["counters"].items())),
        "anchor_hits": dict(sorted(m["reach"].items())),
        "distinct_observed": {k: len(v) for k, v in sorted(m["seen"].items())},
        "distinct_observed_values": {k: sorted(v)[:60] for k, v in sorted(m["seen"].items())},
        "shards": m["shards"],
        "shard_cpu_s": round(m["shard_wall_s"], 1),
        "verdict": verdict,
        "violation_keys": dict(sorted(m["violation_keys"].items())),
        "known_findings_reproduced": sorted(known_seen),
        "new_violation_keys": sorted(new_keys),
        "inconclusive_reasons": problems + low,
        "notes": m["notes"][:20],
        "trusted_base": getattr(mod, "TRUSTED_BASE", []),
    }
    ev = {
        "property_id": prop,
        "tier": tier,
        "seed": seed,
        "level": getattr(mod, "LEVEL", "exploration"),
        "coverage": cov,
        "assumptions": getattr(mod, "ASSUMPTIONS", []),
        "wall_s": round(wall, 2),
        "violations": len(new_keys),
    }
    tmp = os.path.join(EVIDENCE_DIR, prop + ".json.tmp")
    with open(tmp, "w") as f:
        json.dump(ev, f, indent=1, sort_keys=False)
        f.write("\n")
    os.replace(tmp, os.path.join(EVIDENCE_DIR, prop + ".json"))


def do_replay(prop, mod, path):
    from .rec import Recorder, unjson
    with open(path) as f:
        data = json.load(f)
    rec = Recorder(prop, "replay")
    from . import reach
    reach.install(getattr(mod, "ANCHORS", []))
    mod.replay(unjson(data["case"]), rec)
    known = load_known()
    rc = 0
    for k, n in rec.violation_keys.items():
        if k in known:
            print("KNOWN-FINDING: property=%s %s -- %s" % (prop, k, known[k].get("what", "")))
        else:
            rc = 1
    for v in rec.violations:
        print("  violated clause: %s: %s" % (v["key"], json.dumps(v["detail"])[:2000]))
    if rc:
        print("VIOLATION property=%s replay=%s" % (prop, path))
    else:
        print("%s replay: no unlisted violation (%d evaluations)" % (prop, rec.evaluations))
    return rc


if __name__ == "__main__":
    sys.exit(main())
